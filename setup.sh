#!/bin/sh
# Builds the static checker from files on disk only (offline).
set -e
cd "$(dirname "$0")"
export PATH=/opt/veriftools/go1.26.8/bin:$PATH GOFLAGS=-mod=mod GOPROXY=off GOTOOLCHAIN=local GOSUMDB=off
unset GOWORK
mkdir -p bin evidence
cd kyverif && go build -o ../bin/kyverif ./cmd/kyverif
