package core

import (
	"encoding/json"
	"fmt"
	"os"
	"path/filepath"
	"sort"
	"strings"
	"time"
)

const (
	Discharged = "discharged"
	Violated   = "violated"
	Undecided  = "undecided"
)

// Obligation is one instance of one rule at one construct. Key is semantic
// (rule | function | site descriptor), never a line number.
type Obligation struct {
	Rule       string `json:"rule"`
	Func       string `json:"func"`
	Site       string `json:"site"`
	Status     string `json:"status"`
	Pos        string `json:"pos,omitempty"`
	Detail     string `json:"detail,omitempty"`
	Config     string `json:"config,omitempty"`
	Nontrivial bool   `json:"nontrivial"`
}

func (o *Obligation) Key() string { return o.Rule + "|" + o.Func + "|" + o.Site }

type Report struct {
	Prop        string
	Tier        string
	Start       time.Time
	Obls        []*Obligation
	seen        map[string]*Obligation
	Explanation string
	RuleText    string
	NotDecided  []string
	Trusted     []string
	Assumptions []string
	Configs     []string
	FuncsSeen   map[string]bool
	CallSites   int
	Extra       map[string]any
	MinCounts   map[string]int // rule -> frozen minimum number of obligations
	RuleDefs    map[string]string
	Fatal       []string
}

func NewReport(prop, tier string) *Report {
	return &Report{Prop: prop, Tier: tier, Start: time.Now(), seen: map[string]*Obligation{},
		FuncsSeen: map[string]bool{}, Extra: map[string]any{}, MinCounts: map[string]int{}}
}

// Add records an obligation. When the same key is reported from several
// configurations the worst status wins (an obligation must hold in every
// configuration that contains its function).
func (r *Report) Add(o *Obligation) {
	k := o.Key()
	if old, ok := r.seen[k]; ok {
		if rank(o.Status) > rank(old.Status) {
			*old = *o
		} else if o.Config != "" && !strings.Contains(old.Config, o.Config) {
			old.Config += "," + o.Config
		}
		return
	}
	r.seen[k] = o
	r.Obls = append(r.Obls, o)
	if o.Func != "" {
		r.FuncsSeen[o.Func] = true
	}
}

func rank(s string) int {
	switch s {
	case Violated:
		return 2
	case Undecided:
		return 1
	}
	return 0
}

func (r *Report) Ok(rule, fn, site, pos, detail string, nontrivial bool) {
	r.Add(&Obligation{Rule: rule, Func: fn, Site: site, Status: Discharged, Pos: pos, Detail: detail, Nontrivial: nontrivial})
}
func (r *Report) Bad(rule, fn, site, pos, detail string) {
	r.Add(&Obligation{Rule: rule, Func: fn, Site: site, Status: Violated, Pos: pos, Detail: detail, Nontrivial: true})
}
func (r *Report) Unk(rule, fn, site, pos, detail string) {
	r.Add(&Obligation{Rule: rule, Func: fn, Site: site, Status: Undecided, Pos: pos, Detail: detail, Nontrivial: true})
}
func (r *Report) Fatalf(f string, a ...any) { r.Fatal = append(r.Fatal, fmt.Sprintf(f, a...)) }

// ---- known findings --------------------------------------------------------

type Finding struct {
	Property string `json:"property"`
	Key      string `json:"key"`
	What     string `json:"what"`
	Commit   string `json:"commit,omitempty"`
}
type KnownFindings struct {
	Open  []Finding `json:"open"`
	Fixed []Finding `json:"fixed"`
}

func VerifDir() string {
	if d := os.Getenv("KYVERIF_HOME"); d != "" {
		return d
	}
	return "/verif"
}

func LoadKnown() (*KnownFindings, error) {
	b, err := os.ReadFile(filepath.Join(VerifDir(), "known_findings.json"))
	if err != nil {
		if os.IsNotExist(err) {
			return &KnownFindings{}, nil
		}
		return nil, err
	}
	var k KnownFindings
	if err := json.Unmarshal(b, &k); err != nil {
		return nil, err
	}
	return &k, nil
}

// Finish writes the evidence file, prints KNOWN-FINDING / VIOLATION lines and
// returns the process exit code.
func (r *Report) Finish() int {
	known, err := LoadKnown()
	if err != nil {
		r.Fatalf("known_findings.json: %v", err)
		known = &KnownFindings{}
	}
	openByKey := map[string]Finding{}
	for _, f := range known.Open {
		if f.Property == r.Prop {
			openByKey[f.Key] = f
		}
	}
	counts := map[string]int{}
	for _, o := range r.Obls {
		counts[o.Rule]++
	}
	for rule, min := range r.MinCounts {
		if counts[rule] < min {
			r.Fatalf("rule %s produced %d obligations, frozen minimum is %d (a rule that matches too few sites passes vacuously)", rule, counts[rule], min)
		}
	}
	sort.SliceStable(r.Obls, func(i, j int) bool { return r.Obls[i].Key() < r.Obls[j].Key() })
	var viol []*Obligation
	var matched []string
	discharged, nontriv := 0, 0
	for _, o := range r.Obls {
		if o.Nontrivial {
			nontriv++
		}
		if o.Status == Discharged {
			discharged++
			continue
		}
		if f, ok := openByKey[o.Key()]; ok && o.Status == Violated {
			fmt.Printf("KNOWN-FINDING: property=%s %s — %s\n", r.Prop, o.Key(), f.What)
			matched = append(matched, o.Key())
			continue
		}
		viol = append(viol, o)
	}
	evdir := filepath.Join(VerifDir(), "evidence")
	os.MkdirAll(filepath.Join(evdir, "violations"), 0o755)
	// stale replay files of this property are removed
	if old, _ := filepath.Glob(filepath.Join(evdir, "violations", r.Prop+"-*.json")); old != nil {
		for _, f := range old {
			os.Remove(f)
		}
	}
	nviol := len(viol) + len(r.Fatal)
	for i, o := range viol {
		path := filepath.Join(evdir, "violations", fmt.Sprintf("%s-%d.json", r.Prop, i+1))
		b, _ := json.MarshalIndent(o, "", " ")
		os.WriteFile(path, b, 0o644)
		fmt.Printf("%s: [%s] %s — %s (%s) %s\n", o.Pos, o.Rule, o.Func, o.Site, o.Status, o.Detail)
		fmt.Printf("VIOLATION property=%s replay=%s\n", r.Prop, path)
	}
	for i, f := range r.Fatal {
		path := filepath.Join(evdir, "violations", fmt.Sprintf("%s-fatal-%d.json", r.Prop, i+1))
		b, _ := json.MarshalIndent(map[string]string{"fatal": f}, "", " ")
		os.WriteFile(path, b, 0o644)
		fmt.Printf("checker failure: %s\n", f)
		fmt.Printf("VIOLATION property=%s replay=%s\n", r.Prop, path)
	}
	// samples: up to 12 obligations, spread over rules
	var samples []any
	perRule := map[string]int{}
	for _, o := range r.Obls {
		if perRule[o.Rule] < 3 && len(samples) < 24 {
			perRule[o.Rule]++
			samples = append(samples, o)
		}
	}
	if samples == nil {
		samples = []any{}
	}
	funcs := make([]string, 0, len(r.FuncsSeen))
	for f := range r.FuncsSeen {
		funcs = append(funcs, f)
	}
	sort.Strings(funcs)
	// the rule text names every rule that produced an obligation in this run
	ruleText := r.RuleText
	if r.RuleDefs != nil {
		var names []string
		for n := range counts {
			names = append(names, n)
		}
		sort.Strings(names)
		var parts []string
		for _, n := range names {
			if d, ok := r.RuleDefs[n]; ok {
				parts = append(parts, n+": "+d)
			}
		}
		ruleText = "Obligations are enumerated from the type-checked SSA form of the current tree, one per rule instance and construct (key rule|function|site; site = canonical condition, region or call descriptor built from resolved callees, parameter indices, field names, constants). Distinct = distinct keys; non-trivial = deciding it needed at least one branch, store, call summary or dataflow fact (anchor/bookkeeping obligations are trivial). Rules in this run — " + strings.Join(parts, " | ")
	}
	cov := map[string]any{
		"explanation":            r.Explanation,
		"rule":                   ruleText,
		"obligations":            len(r.Obls),
		"discharged":             discharged,
		"evaluations":            len(r.Obls),
		"distinct_nontrivial":    nontriv,
		"samples":                samples,
		"per_rule":               counts,
		"configs":                nz(r.Configs),
		"functions_analysed":     len(funcs),
		"functions":              funcs,
		"call_sites":             r.CallSites,
		"not_decided":            nz(r.NotDecided),
		"trusted_base":           nz(r.Trusted),
		"known_findings_matched": nz(matched),
		"checker_cmd":            fmt.Sprintf("./check %s %s", r.Prop, r.Tier),
		"all_obligations":        capObls(r.Obls),
		"all_obligations_listed": len(capObls(r.Obls)),
	}
	for k, v := range r.Extra {
		cov[k] = v
	}
	seed := 0
	fmt.Sscan(os.Getenv("VERIF_SEED"), &seed)
	ev := map[string]any{
		"property_id": r.Prop,
		"tier":        r.Tier,
		"seed":        seed,
		"level":       "other",
		"coverage":    cov,
		"assumptions": nz(r.Assumptions),
		"wall_s":      time.Since(r.Start).Seconds(),
		"violations":  nviol,
	}
	b, _ := json.MarshalIndent(ev, "", " ")
	if err := os.WriteFile(filepath.Join(evdir, r.Prop+".json"), b, 0o644); err != nil {
		fmt.Printf("cannot write evidence: %v\n", err)
		return 1
	}
	fmt.Printf("%s %s: %d obligations, %d discharged, %d known findings, %d violations, %d functions, %.1fs\n",
		r.Prop, r.Tier, len(r.Obls), discharged, len(matched), nviol, len(funcs), time.Since(r.Start).Seconds())
	if nviol > 0 {
		return 1
	}
	return 0
}

func nz(s []string) []string {
	if s == nil {
		return []string{}
	}
	return s
}

// capObls keeps every non-discharged obligation and the first 400 others (the
// counts above are always complete).
func capObls(obls []*Obligation) []*Obligation {
	if len(obls) <= 400 {
		return obls
	}
	var out []*Obligation
	n := 0
	for _, o := range obls {
		if o.Status != Discharged {
			out = append(out, o)
		} else if n < 400 {
			out = append(out, o)
			n++
		}
	}
	return out
}
