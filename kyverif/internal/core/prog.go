// Package core: loading of /repo's current working tree into type-checked
// syntax + SSA, obligations, evidence and known-findings plumbing.
package core

import (
	"fmt"
	"go/token"
	"go/types"
	"os"
	"sort"
	"strings"
	"time"

	"golang.org/x/tools/go/callgraph"
	"golang.org/x/tools/go/callgraph/cha"
	"golang.org/x/tools/go/callgraph/vta"
	"golang.org/x/tools/go/packages"
	"golang.org/x/tools/go/ssa"
	"golang.org/x/tools/go/ssa/ssautil"
)

const ModPath = "go.dedis.ch/kyber/v4"

// Config is one build configuration of the repository.
type Config struct {
	Name   string
	Tags   string
	GOARCH string
}

var Configs = map[string]Config{
	"default": {Name: "default"},
	"ct":      {Name: "ct", Tags: "constantTime"},
	"generic": {Name: "generic", Tags: "generic"},
	"purego":  {Name: "purego", Tags: "purego"},
	"arm64":   {Name: "arm64", GOARCH: "arm64"},
}

func RepoDir() string {
	if d := os.Getenv("KYVERIF_REPO"); d != "" {
		return d
	}
	return "/repo"
}

type Prog struct {
	Cfg      Config
	Pkgs     []*packages.Package // root packages (module)
	AllPkgs  map[string]*packages.Package
	Fset     *token.FileSet
	SSA      *ssa.Program
	Funcs    map[string]*ssa.Function // short name -> function
	AllFuncs map[*ssa.Function]bool
	cg       *callgraph.Graph
	cha      *callgraph.Graph
	Files    map[string]bool // repo-relative paths of parsed module files
}

// Short strips the module path from a qualified name.
func Short(s string) string {
	s = strings.ReplaceAll(s, ModPath+"/", "")
	s = strings.ReplaceAll(s, ModPath+".", "kyber.")
	s = strings.ReplaceAll(s, ModPath, "kyber")
	return s
}

// Load type-checks ./... of the repository under the configuration and
// builds SSA for the whole program (dependencies included).
// Load loads, type-checks and builds one configuration. A failed load is
// retried once: the only transient cause seen is the shared Go build cache
// being cleaned by another process while `go list` reads it; a real type
// error fails again and is reported.
func Load(cfg Config, overlay map[string][]byte) (*Prog, error) {
	p, err := loadOnce(cfg, overlay)
	if err != nil {
		time.Sleep(3 * time.Second)
		p, err = loadOnce(cfg, overlay)
	}
	return p, err
}

func loadOnce(cfg Config, overlay map[string][]byte) (*Prog, error) {
	gobin := os.Getenv("KYVERIF_GOBIN")
	if gobin == "" {
		gobin = "/opt/veriftools/go1.26.8/bin"
	}
	if !strings.HasPrefix(os.Getenv("PATH"), gobin+":") {
		os.Setenv("PATH", gobin+":"+os.Getenv("PATH"))
	}
	os.Unsetenv("GOWORK")
	env := append(os.Environ(), "GOFLAGS=-mod=mod", "GOPROXY=off", "GOTOOLCHAIN=local", "GOWORK=off", "CGO_ENABLED=0")
	if cfg.GOARCH != "" {
		env = append(env, "GOARCH="+cfg.GOARCH)
	}
	pc := &packages.Config{
		Mode:    packages.LoadAllSyntax,
		Dir:     RepoDir(),
		Env:     env,
		Tests:   false,
		Overlay: overlay,
	}
	if cfg.Tags != "" {
		pc.BuildFlags = []string{"-tags=" + cfg.Tags}
	}
	t0 := time.Now()
	pkgs, err := packages.Load(pc, "./...")
	if os.Getenv("KYVERIF_TIMING") != "" {
		fmt.Fprintf(os.Stderr, "load %.1fs\n", time.Since(t0).Seconds())
		defer func() { fmt.Fprintf(os.Stderr, "load+ssa %.1fs\n", time.Since(t0).Seconds()) }()
	}
	if err != nil {
		return nil, err
	}
	if len(pkgs) == 0 {
		return nil, fmt.Errorf("config %s: no packages loaded", cfg.Name)
	}
	p := &Prog{Cfg: cfg, Pkgs: pkgs, AllPkgs: map[string]*packages.Package{}, Files: map[string]bool{}}
	var terrs []string
	packages.Visit(pkgs, nil, func(pk *packages.Package) {
		p.AllPkgs[pk.PkgPath] = pk
		for _, e := range pk.Errors {
			terrs = append(terrs, e.Error())
		}
	})
	if len(terrs) > 0 {
		if len(terrs) > 5 {
			terrs = terrs[:5]
		}
		return nil, fmt.Errorf("config %s: type errors: %s", cfg.Name, strings.Join(terrs, "; "))
	}
	p.Fset = pkgs[0].Fset
	root := RepoDir() + "/"
	for _, pk := range pkgs {
		for _, f := range pk.CompiledGoFiles {
			p.Files[strings.TrimPrefix(f, root)] = true
		}
		for _, f := range pk.OtherFiles {
			p.Files[strings.TrimPrefix(f, root)] = true
		}
	}
	prog, _ := ssautil.AllPackages(pkgs, ssa.InstantiateGenerics)
	prog.Build()
	p.SSA = prog
	p.AllFuncs = ssautil.AllFunctions(prog)
	p.Funcs = map[string]*ssa.Function{}
	for fn := range p.AllFuncs {
		if fn.Pkg == nil && fn.Origin() == nil && fn.Parent() == nil && fn.Synthetic != "" {
			continue
		}
		n := Short(fn.String())
		if old, ok := p.Funcs[n]; ok && old.Synthetic == "" {
			continue
		}
		p.Funcs[n] = fn
	}
	return p, nil
}

// CG returns the VTA call graph (built lazily).
func (p *Prog) CG() *callgraph.Graph {
	if p.cg == nil {
		p.cg = vta.CallGraph(p.AllFuncs, p.CHA())
	}
	return p.cg
}

// CHA returns the class-hierarchy call graph (lazily).
func (p *Prog) CHA() *callgraph.Graph {
	if p.cha == nil {
		p.cha = cha.CallGraph(p.SSA)
	}
	return p.cha
}

// Fn looks a function up by short name; nil if absent.
func (p *Prog) Fn(name string) *ssa.Function { return p.Funcs[name] }

// InModule reports whether fn is defined in the kyber module.
func InModule(fn *ssa.Function) bool {
	if fn == nil {
		return false
	}
	pk := fn.Package()
	if pk == nil && fn.Origin() != nil {
		pk = fn.Origin().Package()
	}
	for f := fn; pk == nil && f.Parent() != nil; f = f.Parent() {
		pk = f.Parent().Package()
	}
	return pk != nil && pk.Pkg != nil && strings.HasPrefix(pk.Pkg.Path(), ModPath)
}

func PkgPathOf(fn *ssa.Function) string {
	for f := fn; f != nil; f = f.Parent() {
		if f.Package() != nil && f.Package().Pkg != nil {
			return f.Package().Pkg.Path()
		}
		if f.Origin() != nil && f.Origin().Package() != nil {
			return f.Origin().Package().Pkg.Path()
		}
	}
	return ""
}

// Pos renders a position repo-relative.
func (p *Prog) Pos(pos token.Pos) string {
	if !pos.IsValid() {
		return "?"
	}
	ps := p.Fset.Position(pos)
	f := strings.TrimPrefix(ps.Filename, RepoDir()+"/")
	return fmt.Sprintf("%s:%d", f, ps.Line)
}

func (p *Prog) FnPos(fn *ssa.Function) string {
	if fn == nil {
		return "?"
	}
	return p.Pos(fn.Pos())
}

// ModuleFuncs returns functions with bodies defined in the kyber module,
// sorted by name.
func (p *Prog) ModuleFuncs() []*ssa.Function {
	var out []*ssa.Function
	for fn := range p.AllFuncs {
		if InModule(fn) && len(fn.Blocks) > 0 {
			out = append(out, fn)
		}
	}
	sort.Slice(out, func(i, j int) bool { return out[i].String() < out[j].String() })
	return out
}

// NamedTypes returns every named (non-alias, non-generic) type of the module.
func (p *Prog) NamedTypes() []*types.Named {
	var out []*types.Named
	for _, pk := range p.Pkgs {
		sc := pk.Types.Scope()
		for _, n := range sc.Names() {
			if tn, ok := sc.Lookup(n).(*types.TypeName); ok && !tn.IsAlias() {
				if nt, ok := tn.Type().(*types.Named); ok && nt.TypeParams().Len() == 0 {
					out = append(out, nt)
				}
			}
		}
	}
	return out
}

// LookupInterface finds a named interface type, e.g. ("go.dedis.ch/kyber/v4","Point").
func (p *Prog) LookupInterface(pkgPath, name string) *types.Interface {
	pk := p.AllPkgs[pkgPath]
	if pk == nil || pk.Types == nil {
		return nil
	}
	o := pk.Types.Scope().Lookup(name)
	if o == nil {
		return nil
	}
	it, _ := o.Type().Underlying().(*types.Interface)
	return it
}

// Implementors lists module named types T such that *T (or T) implements it.
func (p *Prog) Implementors(it *types.Interface) []*types.Named {
	var out []*types.Named
	for _, nt := range p.NamedTypes() {
		if _, isI := nt.Underlying().(*types.Interface); isI {
			continue
		}
		if types.Implements(types.NewPointer(nt), it) || types.Implements(nt, it) {
			out = append(out, nt)
		}
	}
	sort.Slice(out, func(i, j int) bool { return out[i].String() < out[j].String() })
	return out
}

// Method returns the SSA function of method name on *T (or T), preferring the
// declared method over a synthetic pointer-receiver wrapper.
func (p *Prog) Method(nt *types.Named, name string) *ssa.Function {
	var synth *ssa.Function
	for _, t := range []types.Type{types.NewPointer(nt), nt} {
		ms := p.SSA.MethodSets.MethodSet(t)
		for i := 0; i < ms.Len(); i++ {
			if ms.At(i).Obj().Name() == name {
				fn := p.SSA.MethodValue(ms.At(i))
				if fn == nil {
					continue
				}
				if fn.Synthetic == "" {
					return fn
				}
				if synth == nil {
					synth = fn
				}
			}
		}
	}
	return synth
}
