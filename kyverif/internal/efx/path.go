// Package efx: origins (which abstract memory region a reference may denote),
// effects (which parameter-/global-rooted regions a function may read or
// write, transitively), reference stores (sharing), aliasing hazards, and the
// rules built on them. Over-approximates writes and sharing.
package efx

import (
	"sort"
	"strings"
)

// A Path names an abstract memory region: a root followed by selectors.
//
//	roots:      P<i> (object denoted by parameter i), G:<name> (global),
//	            F:<site> (allocated in the function), R<k> (fresh object
//	            returned as result k, in summaries)
//	selectors:  .f (field)   * (pointee of a stored reference)
//	            [] (any element)   [k] (element at constant index k)
//
// A path ending in "…" stands for everything below it.
type Path string

const maxSel = 7

// split returns the root and the selector list (a trailing "…" is its own item).
func (p Path) split() (string, []string) {
	s := string(p)
	i := 0
	for i < len(s) && s[i] != '.' && s[i] != '*' && s[i] != '[' && !strings.HasPrefix(s[i:], "…") {
		i++
	}
	root := s[:i]
	var sels []string
	for i < len(s) {
		switch {
		case strings.HasPrefix(s[i:], "…"):
			sels = append(sels, "…")
			i += len("…")
		case s[i] == '*':
			sels = append(sels, "*")
			i++
		case s[i] == '[':
			j := strings.IndexByte(s[i:], ']')
			sels = append(sels, s[i:i+j+1])
			i += j + 1
		default: // '.'
			j := i + 1
			for j < len(s) && s[j] != '.' && s[j] != '*' && s[j] != '[' && !strings.HasPrefix(s[j:], "…") {
				j++
			}
			sels = append(sels, s[i:j])
			i = j
		}
	}
	return root, sels
}

func (p Path) Root() string { r, _ := p.split(); return r }

func (p Path) nsel() int { _, s := p.split(); return len(s) }

func (p Path) Ext(sel string) Path {
	if strings.HasSuffix(string(p), "…") {
		return p
	}
	if p.nsel() >= maxSel {
		return p + "…"
	}
	return p + Path(sel)
}

// Sel returns the selectors after the root.
func (p Path) Sel() string { return string(p)[len(p.Root()):] }

// Rebase replaces the root of p by the path q.
func (p Path) Rebase(q Path) Path {
	_, sels := p.split()
	out := q
	for _, s := range sels {
		if s == "…" {
			if !strings.HasSuffix(string(out), "…") {
				out += "…"
			}
			break
		}
		out = out.Ext(s)
	}
	return out
}

func selMatch(a, b string) bool {
	if a == b {
		return true
	}
	if len(a) > 0 && a[0] == '[' && len(b) > 0 && b[0] == '[' {
		return a == "[]" || b == "[]"
	}
	return false
}

// prefixOf: is x (selector list) a prefix of y, with [] as wildcard and "…" as "anything below"?
func prefixOf(x, y []string) bool {
	for i, s := range x {
		if s == "…" {
			return true
		}
		if i >= len(y) {
			return false
		}
		if y[i] == "…" {
			return true
		}
		if !selMatch(s, y[i]) {
			return false
		}
	}
	return true
}

// Overlap reports whether the two regions may share memory (one is a prefix
// of the other, element selectors compared with [] as wildcard).
func Overlap(a, b Path) bool {
	ra, sa := a.split()
	rb, sb := b.split()
	if ra != rb {
		return false
	}
	return prefixOf(sa, sb) || prefixOf(sb, sa)
}

// Under reports whether a lies within region b (b is a prefix of a).
func Under(a, b Path) bool {
	ra, sa := a.split()
	rb, sb := b.split()
	if ra != rb {
		return false
	}
	return prefixOf(sb, sa)
}

// RelTo returns the selectors of a below b (a must be Under b).
func (a Path) RelTo(b Path) []string {
	_, sa := a.split()
	_, sb := b.split()
	n := len(sb)
	if n > 0 && sb[n-1] == "…" {
		n--
	}
	if n > len(sa) {
		return nil
	}
	return sa[n:]
}

type PathSet map[Path]bool

func (s PathSet) Add(p Path) bool {
	if s[p] {
		return false
	}
	s[p] = true
	return true
}
func (s PathSet) AddAll(t PathSet) bool {
	ch := false
	for p := range t {
		if s.Add(p) {
			ch = true
		}
	}
	return ch
}
func (s PathSet) Sorted() []string {
	var out []string
	for p := range s {
		out = append(out, string(p))
	}
	sort.Strings(out)
	return out
}

// IsParamRoot / IsGlobalRoot classify roots.
func IsParamRoot(r string) bool  { return len(r) > 1 && r[0] == 'P' && r[1] >= '0' && r[1] <= '9' }
func IsGlobalRoot(r string) bool { return strings.HasPrefix(r, "G:") }
func IsFreshRoot(r string) bool {
	return strings.HasPrefix(r, "F:") || (len(r) > 1 && r[0] == 'R' && r[1] >= '0' && r[1] <= '9')
}
