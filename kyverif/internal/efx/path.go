// Package efx: origins (which abstract memory region a reference may denote),
// effects (which parameter-/global-rooted regions a function may read or
// write, transitively), reference stores (sharing) and the rules built on
// them (operands intact, read-only, Set/Clone independence, Equal read set,
// receiver returned). Flow-insensitive inside a function, summary-based and
// bottom-up across functions; over-approximates writes and sharing.
package efx

import (
	"sort"
	"strings"
)

// A Path names an abstract memory region: a root followed by selectors.
//
//	roots:      P<i> (object denoted by parameter i), G:<name> (global),
//	            F:<site> (allocated in the function), R<k> (fresh object
//	            returned as result k, in summaries), U (unknown)
//	selectors:  .f (field)   * (pointee of a stored reference)   [] (element)
//
// A path ending in "…" stands for everything below it.
type Path string

const maxSel = 6

func (p Path) Root() string {
	s := string(p)
	for i := 0; i < len(s); i++ {
		switch s[i] {
		case '.', '*', '[':
			return s[:i]
		}
		if strings.HasPrefix(s[i:], "…") {
			return s[:i]
		}
	}
	return s
}

func (p Path) nsel() int {
	n := 0
	for _, c := range string(p) {
		if c == '.' || c == '*' || c == '[' {
			n++
		}
	}
	return n
}

func (p Path) Ext(sel string) Path {
	if strings.HasSuffix(string(p), "…") {
		return p
	}
	if p.nsel() >= maxSel {
		return p + "…"
	}
	return p + Path(sel)
}

// Sel returns the selectors after the root.
func (p Path) Sel() string { return string(p)[len(p.Root()):] }

// Rebase replaces the root of p by the path q.
func (p Path) Rebase(q Path) Path {
	out := q
	sel := p.Sel()
	// split sel into selectors
	for len(sel) > 0 {
		if strings.HasPrefix(sel, "…") {
			if !strings.HasSuffix(string(out), "…") {
				out += "…"
			}
			break
		}
		j := 1
		if sel[0] == '[' {
			j = 2
		} else if sel[0] == '.' {
			for j < len(sel) && sel[j] != '.' && sel[j] != '*' && sel[j] != '[' && !strings.HasPrefix(sel[j:], "…") {
				j++
			}
		}
		out = out.Ext(sel[:j])
		sel = sel[j:]
	}
	return out
}

func isBoundary(s string) bool {
	return s == "" || s[0] == '.' || s[0] == '*' || s[0] == '[' || strings.HasPrefix(s, "…")
}

// Overlap reports whether the two regions may share memory (one is a prefix
// of the other).
func Overlap(a, b Path) bool {
	x, y := strings.TrimSuffix(string(a), "…"), strings.TrimSuffix(string(b), "…")
	if len(x) > len(y) {
		x, y = y, x
	}
	return strings.HasPrefix(y, x) && isBoundary(y[len(x):])
}

// Under reports whether a lies within region b (b is a prefix of a).
func Under(a, b Path) bool {
	x, y := strings.TrimSuffix(string(b), "…"), strings.TrimSuffix(string(a), "…")
	return strings.HasPrefix(y, x) && isBoundary(y[len(x):])
}

type PathSet map[Path]bool

func (s PathSet) Add(p Path) bool {
	if s[p] {
		return false
	}
	s[p] = true
	return true
}
func (s PathSet) AddAll(t PathSet) bool {
	ch := false
	for p := range t {
		if s.Add(p) {
			ch = true
		}
	}
	return ch
}
func (s PathSet) Sorted() []string {
	var out []string
	for p := range s {
		out = append(out, string(p))
	}
	sort.Strings(out)
	return out
}

// IsParamRoot / IsGlobalRoot classify roots.
func IsParamRoot(r string) bool  { return len(r) > 1 && r[0] == 'P' && r[1] >= '0' && r[1] <= '9' }
func IsGlobalRoot(r string) bool { return strings.HasPrefix(r, "G:") }
func IsFreshRoot(r string) bool  { return strings.HasPrefix(r, "F:") || (len(r) > 1 && r[0] == 'R' && r[1] >= '0' && r[1] <= '9') }
