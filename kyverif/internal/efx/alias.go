package efx

import (
	"fmt"
	"go/token"
	"sort"
	"strings"

	"golang.org/x/tools/go/ssa"

	"kyverif/internal/core"
)

// AliasCtx maps a parameter index to the absolute regions its object denotes
// in the aliasing scenario under analysis. Parameters not in the map are not
// aliased with anything.
type AliasCtx map[int][]Path

func (c AliasCtx) key() string {
	var ks []int
	for k := range c {
		ks = append(ks, k)
	}
	sort.Ints(ks)
	var sb strings.Builder
	for _, k := range ks {
		rs := append([]Path(nil), c[k]...)
		sort.Slice(rs, func(i, j int) bool { return rs[i] < rs[j] })
		fmt.Fprintf(&sb, "%d=%v;", k, rs)
	}
	return sb.String()
}

// Hazard: under the aliasing scenario, region Region is read through one
// parameter after it may have been written through another.
type Hazard struct {
	Fn       *ssa.Function
	ReadPos  token.Pos
	WritePos token.Pos
	Region   string
	ReadVia  int
	WriteVia int
	Chain    []string
}

type acc struct {
	via int
	reg Path
}

type wstate map[acc]token.Pos

func (w wstate) clone() wstate {
	n := wstate{}
	for k, v := range w {
		n[k] = v
	}
	return n
}

// annotated selector helpers: "[#name]" symbolic index in the current
// iteration, "[@name]" the same SSA index value in an earlier iteration.
func annOverlap(a, b Path, induction func(name string) bool) bool {
	ra, sa := a.split()
	rb, sb := b.split()
	if ra != rb {
		return false
	}
	// x is a prefix of y; the remainder of y must not cross a dereference:
	// writing a pointer slot does not touch its pointee (only "…" covers pointees)
	pre := func(x, y []string) bool {
		for i, s := range x {
			if s == "…" {
				return true
			}
			if i >= len(y) {
				return false
			}
			if y[i] == "…" {
				return true
			}
			if !annSelMatch(s, y[i], induction) {
				return false
			}
		}
		for _, s := range y[len(x):] {
			if s == "*" {
				return false
			}
		}
		return true
	}
	return pre(sa, sb) || pre(sb, sa)
}

func annSelMatch(a, b string, induction func(string) bool) bool {
	if a == b {
		// same symbolic index in the same iteration, or same constant / field
		return true
	}
	if len(a) == 0 || len(b) == 0 || a[0] != '[' || b[0] != '[' {
		return false
	}
	// both element selectors
	ka, kb := a[1], b[1]
	isConst := func(k byte) bool { return k >= '0' && k <= '9' }
	if isConst(ka) && isConst(kb) {
		return false // different constants
	}
	// "[@v]" vs "[#v]": same induction value, different iterations: disjoint
	if (ka == '@' && kb == '#' || ka == '#' && kb == '@') && a[2:] == b[2:] && induction(a[2:len(a)-1]) {
		return false
	}
	return true
}

func (a *Analyzer) absRegions(st *fnState, ctx AliasCtx, v ssa.Value) []acc {
	var out []acc
	for p := range st.get(v) {
		r := p.Root()
		if !IsParamRoot(r) {
			continue
		}
		var i int
		fmt.Sscanf(r, "P%d", &i)
		bases, ok := ctx[i]
		if !ok {
			continue
		}
		for _, b := range bases {
			out = append(out, acc{i, p.Rebase(b)})
		}
	}
	return out
}

// refine: replace the trailing "[]" of regions accessed directly through an
// IndexAddr with a symbolic "[#name]" when the index is an SSA value.
func refineIdx(addr ssa.Value, regs []acc) []acc {
	ia, ok := addr.(*ssa.IndexAddr)
	if !ok {
		return regs
	}
	if _, isConst := ia.Index.(*ssa.Const); isConst {
		return regs
	}
	name := ia.Index.Name()
	out := make([]acc, 0, len(regs))
	for _, r := range regs {
		s := string(r.reg)
		if strings.HasSuffix(s, "[]") {
			s = s[:len(s)-2] + "[#" + name + "]"
		}
		out = append(out, acc{r.via, Path(s)})
	}
	return out
}

func isInduction(fn *ssa.Function, name string) bool {
	var v ssa.Value
	for _, b := range fn.Blocks {
		for _, in := range b.Instrs {
			if x, ok := in.(ssa.Value); ok && x.Name() == name {
				v = x
			}
		}
	}
	return inductionVal(v, 0)
}

func inductionVal(v ssa.Value, depth int) bool {
	if v == nil || depth > 4 {
		return false
	}
	switch x := v.(type) {
	case *ssa.Phi:
		// one edge must be x ± nonzero const (possibly through conversions)
		for _, e := range x.Edges {
			if b, ok := e.(*ssa.BinOp); ok && (b.Op == token.ADD || b.Op == token.SUB) {
				if b.X == x {
					if c, ok := b.Y.(*ssa.Const); ok && c.Value != nil && c.Value.String() != "0" {
						return true
					}
				}
			}
		}
		return false
	case *ssa.BinOp:
		if x.Op == token.ADD || x.Op == token.SUB {
			if _, ok := x.Y.(*ssa.Const); ok {
				return inductionVal(x.X, depth+1)
			}
			if _, ok := x.X.(*ssa.Const); ok && x.Op == token.ADD {
				return inductionVal(x.Y, depth+1)
			}
		}
	case *ssa.Convert:
		return inductionVal(x.X, depth+1)
	case *ssa.Extract:
		if n, ok := x.Tuple.(*ssa.Next); ok && x.Index == 1 {
			_ = n
			return true // range key
		}
	}
	return false
}

// CheckAlias analyses fn under the aliasing scenario ctx and returns the
// hazards found in it and (recursively) in the callees it reaches with
// aliased arguments.
func (a *Analyzer) CheckAlias(fn *ssa.Function, ctx AliasCtx) []Hazard {
	key := core.Short(fn.String()) + "|" + ctx.key()
	if hz, ok := a.aliasMemo[key]; ok {
		return hz
	}
	if a.aliasBusy[key] {
		return nil
	}
	a.aliasBusy[key] = true
	defer delete(a.aliasBusy, key)
	a.Summary(fn)
	st := a.states[fn]
	if st == nil {
		a.aliasMemo[key] = nil
		return nil
	}
	// explicit alias tests (`if G == P { T = &tmp }`) are decided by the scenario:
	// prune the inconsistent branch and recompute origins without it
	dead, deadEdge := a.scenarioDead(st, ctx)
	if len(deadEdge) > 0 {
		_, st = a.analyzeWith(fn, dead, deadEdge)
	}
	var hazards []Hazard
	seenHz := map[string]bool{}
	induction := func(name string) bool { return isInduction(fn, name) }
	report := func(rd acc, rpos token.Pos, w acc, wpos token.Pos) {
		k := fmt.Sprintf("%d|%d", rpos, wpos)
		if seenHz[k] {
			return
		}
		seenHz[k] = true
		hazards = append(hazards, Hazard{Fn: fn, ReadPos: rpos, WritePos: wpos, Region: string(rd.reg), ReadVia: rd.via, WriteVia: w.via})
	}
	checkRead := func(ws wstate, rd acc, pos token.Pos) {
		for w, wpos := range ws {
			if w.via != rd.via && annOverlap(w.reg, rd.reg, induction) {
				report(rd, pos, w, wpos)
			}
		}
	}
	in := map[*ssa.BasicBlock]wstate{}
	in[fn.Blocks[0]] = wstate{}
	work := []*ssa.BasicBlock{fn.Blocks[0]}
	inWork := map[*ssa.BasicBlock]bool{fn.Blocks[0]: true}
	for len(work) > 0 {
		b := work[0]
		work = work[1:]
		inWork[b] = false
		if dead[b] {
			continue
		}
		ws := in[b].clone()
		for _, instr := range b.Instrs {
			switch x := instr.(type) {
			case *ssa.UnOp:
				if x.Op == token.MUL {
					for _, rd := range refineIdx(x.X, a.absRegions(st, ctx, x.X)) {
						checkRead(ws, rd, x.Pos())
					}
				}
			case *ssa.Store:
				if a.selfAssign(st, ctx, x) {
					continue // *p = *q with p and q the same object in this scenario: no change
				}
				for _, w := range refineIdx(x.Addr, a.absRegions(st, ctx, x.Addr)) {
					if _, ok := ws[w]; !ok {
						ws[w] = x.Pos()
					}
				}
			case *ssa.MapUpdate:
				for _, w := range a.absRegions(st, ctx, x.Map) {
					w.reg = w.reg.Ext("[]")
					if _, ok := ws[w]; !ok {
						ws[w] = x.Pos()
					}
				}
			case ssa.CallInstruction:
				hz := a.aliasCall(st, ctx, ws, x, checkRead)
				for _, h := range hz {
					k := fmt.Sprintf("%d|%d|%s", h.ReadPos, h.WritePos, core.Short(h.Fn.String()))
					if !seenHz[k] {
						seenHz[k] = true
						hazards = append(hazards, h)
					}
				}
			}
		}
		for _, s := range b.Succs {
			if deadEdge[[2]*ssa.BasicBlock{b, s}] {
				continue
			}
			out := ws
			if s.Dominates(b) { // back edge: symbolic indices of this loop now denote earlier iterations
				out = wstate{}
				for w, pos := range ws {
					reg := string(w.reg)
					if strings.Contains(reg, "[#") {
						reg = strings.ReplaceAll(reg, "[#", "[@")
					}
					k := acc{w.via, Path(reg)}
					if _, ok := out[k]; !ok {
						out[k] = pos
					}
				}
			}
			cur, ok := in[s]
			changed := false
			if !ok {
				in[s] = out.clone()
				changed = true
			} else {
				for w, pos := range out {
					if _, has := cur[w]; !has {
						cur[w] = pos
						changed = true
					}
				}
			}
			if changed && !inWork[s] {
				inWork[s] = true
				work = append(work, s)
			}
		}
	}
	sort.Slice(hazards, func(i, j int) bool { return hazards[i].ReadPos < hazards[j].ReadPos })
	a.aliasMemo[key] = hazards
	return hazards
}

func (a *Analyzer) aliasCall(st *fnState, ctx AliasCtx, ws wstate, ci ssa.CallInstruction, checkRead func(wstate, acc, token.Pos)) []Hazard {
	c := ci.Common()
	var args []ssa.Value
	if c.IsInvoke() {
		args = append(args, c.Value)
	}
	args = append(args, c.Args...)
	if mc, ok := c.Value.(*ssa.MakeClosure); ok {
		args = append(args, mc.Bindings...)
	} else if !c.IsInvoke() && c.StaticCallee() == nil {
		if mc := closureOf(c.Value); mc != nil {
			args = append(args, mc.Bindings...)
		}
	}
	argRegs := make([][]acc, len(args))
	any := false
	for i, v := range args {
		argRegs[i] = a.absRegions(st, ctx, v)
		if len(argRegs[i]) > 0 {
			any = true
		}
	}
	if !any {
		return nil
	}
	var hazards []Hazard
	if b, ok := c.Value.(*ssa.Builtin); ok {
		switch b.Name() {
		case "copy": // memmove semantics: alias-safe
			for _, r := range argRegs[1] {
				checkRead(ws, acc{r.via, r.reg.Ext("[]")}, ci.Pos())
			}
			for _, w := range argRegs[0] {
				k := acc{w.via, w.reg.Ext("[]")}
				if _, ok := ws[k]; !ok {
					ws[k] = ci.Pos()
				}
			}
		case "append":
			if len(argRegs) > 1 {
				for _, r := range argRegs[1] {
					checkRead(ws, acc{r.via, r.reg.Ext("[]")}, ci.Pos())
				}
			}
			for _, w := range argRegs[0] {
				k := acc{w.via, w.reg.Ext("[]")}
				if _, ok := ws[k]; !ok {
					ws[k] = ci.Pos()
				}
			}
		}
		return nil
	}
	// callees
	type target struct {
		fn  *ssa.Function
		eff calleeEff
	}
	var targets []target
	if c.IsInvoke() {
		if e, ok := ifaceContract(c); ok {
			targets = append(targets, target{nil, e})
		}
	}
	if len(targets) == 0 {
		if f := c.StaticCallee(); f != nil {
			targets = append(targets, target{f, a.static(f, c)})
		} else {
			cg := a.P.CG()
			seen := map[*ssa.Function]bool{}
			for _, g := range []*struct{ n interface{} }{} {
				_ = g
			}
			if node := cg.Nodes[st.fn]; node != nil {
				for _, e := range node.Out {
					if e.Site == ci && e.Callee != nil && !seen[e.Callee.Func] {
						seen[e.Callee.Func] = true
						targets = append(targets, target{e.Callee.Func, a.static(e.Callee.Func, c)})
					}
				}
			}
			if len(targets) == 0 {
				if node := a.P.CHA().Nodes[st.fn]; node != nil {
					for _, e := range node.Out {
						if e.Site == ci && e.Callee != nil && !seen[e.Callee.Func] {
							seen[e.Callee.Func] = true
							targets = append(targets, target{e.Callee.Func, a.static(e.Callee.Func, c)})
						}
					}
				}
			}
		}
	}
	// does the call pass overlapping regions through two different callee parameters?
	aliased := false
	for i := 0; i < len(argRegs) && !aliased; i++ {
		for j := i + 1; j < len(argRegs) && !aliased; j++ {
			for _, x := range argRegs[i] {
				for _, y := range argRegs[j] {
					if Overlap(x.reg, y.reg) {
						aliased = true
					}
				}
			}
		}
	}
	for _, t := range targets {
		if aliased {
			if t.fn != nil && analysable(t.fn) {
				cctx := AliasCtx{}
				for i, rs := range argRegs {
					for _, r := range rs {
						cctx[i] = append(cctx[i], r.reg)
					}
				}
				for _, h := range a.CheckAlias(t.fn, cctx) {
					h.Chain = append([]string{core.Short(st.fn.String())}, h.Chain...)
					hazards = append(hazards, h)
				}
			} else {
				a.AliasSafeLeaves[t.eff.name] = true
			}
		}
		mapPath := func(p Path) []acc {
			r := p.Root()
			if !IsParamRoot(r) {
				return nil
			}
			var i int
			fmt.Sscanf(r, "P%d", &i)
			if i >= len(argRegs) {
				return nil
			}
			var out []acc
			for _, base := range argRegs[i] {
				out = append(out, acc{base.via, p.Rebase(base.reg)})
			}
			return out
		}
		for _, rd := range t.eff.reads {
			for _, r := range mapPath(rd) {
				checkRead(ws, r, ci.Pos())
			}
		}
	}
	for _, t := range targets {
		for _, w := range t.eff.writes {
			r := w.Root()
			if !IsParamRoot(r) {
				continue
			}
			var i int
			fmt.Sscanf(r, "P%d", &i)
			if i >= len(argRegs) {
				continue
			}
			for _, base := range argRegs[i] {
				k := acc{base.via, w.Rebase(base.reg)}
				if _, ok := ws[k]; !ok {
					ws[k] = ci.Pos()
				}
			}
		}
	}
	return hazards
}

// selfAssign: the stored value was loaded from exactly the region it is
// stored to (under the scenario), e.g. `*p = *q` or `i.M = a.M` with i == a.
func (a *Analyzer) selfAssign(st *fnState, ctx AliasCtx, x *ssa.Store) bool {
	ld, ok := x.Val.(*ssa.UnOp)
	if !ok || ld.Op != token.MUL {
		return false
	}
	dst := a.absRegions(st, ctx, x.Addr)
	src := a.absRegions(st, ctx, ld.X)
	if len(dst) != 1 || len(src) != 1 {
		return false
	}
	return dst[0].reg == src[0].reg && !strings.HasSuffix(string(dst[0].reg), "…")
}

// scenarioDead: blocks unreachable when pointer-equality tests between
// parameters that the scenario identifies (or separates) are decided.
func (a *Analyzer) scenarioDead(st *fnState, ctx AliasCtx) (map[*ssa.BasicBlock]bool, map[[2]*ssa.BasicBlock]bool) {
	fn := st.fn
	single := func(v ssa.Value) (int, bool) {
		ps := st.get(v)
		if len(ps) != 1 {
			return 0, false
		}
		for p := range ps {
			r, sels := p.split()
			if len(sels) == 0 && IsParamRoot(r) {
				var i int
				fmt.Sscanf(r, "P%d", &i)
				return i, true
			}
		}
		return 0, false
	}
	decided := map[*ssa.BasicBlock]int{} // block -> index of the only live successor
	for _, b := range fn.Blocks {
		ifi, ok := b.Instrs[len(b.Instrs)-1].(*ssa.If)
		if !ok {
			continue
		}
		cond := ifi.Cond
		neg := false
		for {
			if u, ok := cond.(*ssa.UnOp); ok && u.Op == token.NOT {
				neg = !neg
				cond = u.X
				continue
			}
			break
		}
		bo, ok := cond.(*ssa.BinOp)
		if !ok || (bo.Op != token.EQL && bo.Op != token.NEQ) {
			continue
		}
		i, ok1 := single(bo.X)
		j, ok2 := single(bo.Y)
		if !ok1 || !ok2 || i == j {
			continue
		}
		ri, ini := ctx[i]
		rj, inj := ctx[j]
		if !ini || !inj || len(ri) != 1 || len(rj) != 1 || ri[0] != rj[0] {
			continue // not identified by the scenario: leave both branches
		}
		eq := true // the two are the same object
		if bo.Op == token.NEQ {
			eq = !eq
		}
		if neg {
			eq = !eq
		}
		if eq {
			decided[b] = 0
		} else {
			decided[b] = 1
		}
	}
	if len(decided) == 0 {
		return nil, nil
	}
	deadEdge := map[[2]*ssa.BasicBlock]bool{}
	for b, k := range decided {
		if b.Succs[0] != b.Succs[1] {
			deadEdge[[2]*ssa.BasicBlock{b, b.Succs[1-k]}] = true
		}
	}
	live := map[*ssa.BasicBlock]bool{}
	var walk func(b *ssa.BasicBlock)
	walk = func(b *ssa.BasicBlock) {
		if live[b] {
			return
		}
		live[b] = true
		if k, ok := decided[b]; ok {
			walk(b.Succs[k])
			return
		}
		for _, s := range b.Succs {
			walk(s)
		}
	}
	walk(fn.Blocks[0])
	dead := map[*ssa.BasicBlock]bool{}
	for _, b := range fn.Blocks {
		if !live[b] {
			dead[b] = true
		}
	}
	return dead, deadEdge
}
