package efx

import (
	"fmt"
	"go/types"
	"strings"

	"golang.org/x/tools/go/ssa"

	"kyverif/internal/core"
)

// effect of a callee expressed over callee roots P0..Pn (P0 = receiver for
// invokes and methods), R<k> = fresh result k.
type calleeEff struct {
	writes    []Path
	reads     []Path
	ret       [][]Path // per result
	refStores map[Path][]Path
	name      string
	unknown   string
}

func (st *fnState) call(ci ssa.CallInstruction, fp func(ssa.Instruction) Path) {
	c := ci.Common()
	var args []ssa.Value
	if c.IsInvoke() {
		args = append(args, c.Value)
	}
	args = append(args, c.Args...)
	if mc, ok := c.Value.(*ssa.MakeClosure); ok {
		args = append(args, mc.Bindings...)
	} else if !c.IsInvoke() && c.StaticCallee() == nil {
		// closure held in a local: use the bindings of the MakeClosure that flows here, if unique
		if mc := closureOf(c.Value); mc != nil {
			args = append(args, mc.Bindings...)
		}
	}

	if b, ok := c.Value.(*ssa.Builtin); ok {
		st.builtin(ci, b, args, fp)
		return
	}
	effs := st.a.resolve(st.fn, ci)
	val, _ := ci.(ssa.Value)
	nres := c.Signature().Results().Len()
	var freshBase Path
	for _, e := range effs {
		if e.unknown != "" {
			st.noteUnknown(e.unknown)
		}
		subst := func(p Path) []Path {
			r := p.Root()
			var out []Path
			if IsParamRoot(r) {
				var i int
				fmt.Sscanf(r, "P%d", &i)
				if i < len(args) {
					for o := range st.get(args[i]) {
						out = append(out, p.Rebase(o))
					}
				}
				return out
			}
			if IsGlobalRoot(r) {
				return []Path{p}
			}
			if len(r) > 1 && r[0] == 'R' {
				if freshBase == "" {
					freshBase = fp(ci)
				}
				return []Path{p.Rebase(freshBase + Path("r"+r[1:]))}
			}
			return nil
		}
		for _, w := range e.writes {
			for _, p := range subst(w) {
				st.write(p, ci.Pos(), "call "+e.name)
			}
		}
		for _, rd := range e.reads {
			for _, p := range subst(rd) {
				st.read(p)
			}
		}
		for tgt, srcs := range e.refStores {
			for _, t := range subst(tgt) {
				for _, s := range srcs {
					for _, sp := range subst(s) {
						st.storeRef(t, PathSet{sp: true})
					}
				}
			}
		}
		if val != nil {
			for k := 0; k < nres && k < len(e.ret); k++ {
				ps := PathSet{}
				for _, r := range e.ret[k] {
					for _, p := range subst(r) {
						ps[p] = true
					}
				}
				if nres == 1 {
					st.add(val, ps)
				} else {
					key := tupleKey{val, k}
					cur := st.tuples()[key]
					if cur == nil {
						cur = PathSet{}
						st.tuples()[key] = cur
					}
					for p := range ps {
						if !cur[p] {
							cur[p] = true
							st.changed = true
						}
					}
				}
			}
		}
	}
}

func closureOf(v ssa.Value) *ssa.MakeClosure {
	seen := map[ssa.Value]bool{}
	var found *ssa.MakeClosure
	var walk func(v ssa.Value) bool
	walk = func(v ssa.Value) bool {
		if seen[v] {
			return true
		}
		seen[v] = true
		switch x := v.(type) {
		case *ssa.MakeClosure:
			if found != nil && found != x {
				return false
			}
			found = x
			return true
		case *ssa.Phi:
			for _, e := range x.Edges {
				if !walk(e) {
					return false
				}
			}
			return true
		case *ssa.ChangeType:
			return walk(x.X)
		}
		return false
	}
	if walk(v) {
		return found
	}
	return nil
}

func (st *fnState) noteUnknown(s string) {
	for _, u := range st.sum.Unknown {
		if u == s {
			return
		}
	}
	st.sum.Unknown = append(st.sum.Unknown, s)
}

func (st *fnState) builtin(ci ssa.CallInstruction, b *ssa.Builtin, args []ssa.Value, fp func(ssa.Instruction) Path) {
	val, _ := ci.(ssa.Value)
	switch b.Name() {
	case "copy":
		for p := range st.get(args[0]) {
			st.write(p.Ext("[]"), ci.Pos(), "copy")
			if HasRefs(args[0].Type().Underlying().(*types.Slice).Elem()) {
				for s := range st.get(args[1]) {
					st.storeRef(p.Ext("[]"), PathSet{s.Ext("[]").Ext("…"): true})
				}
			}
		}
		for p := range st.get(args[1]) {
			st.read(p.Ext("[]"))
		}
	case "append":
		// may write the spare capacity of its first argument's backing array
		for p := range st.get(args[0]) {
			st.write(p.Ext("[]"), ci.Pos(), "append")
			if val != nil {
				st.add1(val, p)
			}
		}
		if val != nil {
			f := fp(ci)
			st.add1(val, f)
			if len(args) > 1 {
				et := args[0].Type().Underlying().(*types.Slice).Elem()
				for s := range st.get(args[1]) {
					st.read(s.Ext("[]"))
					if isRefType(et) {
						// elements are references: new backing array holds what the source elements hold
						st.storeRef(f.Ext("[]"), PathSet{s.Ext("[]").Ext("*"): true})
						st.storeRef(f.Ext("[]"), st.content[s.Ext("[]")])
						for p := range st.get(args[0]) {
							st.storeRef(p.Ext("[]"), PathSet{s.Ext("[]").Ext("*"): true})
							st.storeRef(p.Ext("[]"), st.content[s.Ext("[]")])
						}
					}
				}
				// previous contents are carried over
				for p := range st.get(args[0]) {
					st.storeRef(f.Ext("[]"), st.content[p.Ext("[]")])
					if isRefType(et) {
						st.storeRef(f.Ext("[]"), PathSet{p.Ext("[]").Ext("*"): true})
					}
				}
			}
		}
	case "delete":
		for p := range st.get(args[0]) {
			st.write(p.Ext("[]"), ci.Pos(), "delete")
		}
	case "clear":
		for p := range st.get(args[0]) {
			st.write(p.Ext("[]"), ci.Pos(), "clear")
		}
	}
}

// ---- callee resolution -------------------------------------------------------

func fromSummary(s *Summary, name string) calleeEff {
	e := calleeEff{name: name, refStores: map[Path][]Path{}}
	for p := range s.Writes {
		e.writes = append(e.writes, p)
	}
	for p := range s.Reads {
		e.reads = append(e.reads, p)
	}
	for _, r := range s.Ret {
		var ps []Path
		for p := range r {
			ps = append(ps, p)
		}
		e.ret = append(e.ret, ps)
	}
	for t, srcs := range s.RefStores {
		for p := range srcs {
			e.refStores[t] = append(e.refStores[t], p)
		}
	}
	if len(s.Unknown) > 0 {
		e.unknown = s.Unknown[0]
	}
	return e
}

func (a *Analyzer) resolve(caller *ssa.Function, ci ssa.CallInstruction) []calleeEff {
	c := ci.Common()
	if c.IsInvoke() {
		if e, ok := ifaceContract(c); ok {
			a.Stats.Contract++
			return []calleeEff{e}
		}
		return a.dynamic(caller, ci)
	}
	if f := c.StaticCallee(); f != nil {
		return []calleeEff{a.static(f, c)}
	}
	return a.dynamic(caller, ci)
}

func (a *Analyzer) static(f *ssa.Function, c *ssa.CallCommon) calleeEff {
	name := core.Short(f.String())
	if e, ok := tableEff(name, f); ok {
		return e
	}
	if analysable(f) {
		return fromSummary(a.Summary(f), name)
	}
	a.Stats.External++
	return convention(f, name)
}

func (a *Analyzer) dynamic(caller *ssa.Function, ci ssa.CallInstruction) []calleeEff {
	a.Stats.Dyn++
	cg := a.P.CG()
	node := cg.Nodes[caller]
	var out []calleeEff
	seen := map[*ssa.Function]bool{}
	if node != nil {
		for _, e := range node.Out {
			if e.Site != ci || e.Callee == nil || seen[e.Callee.Func] {
				continue
			}
			seen[e.Callee.Func] = true
			out = append(out, a.static(e.Callee.Func, ci.Common()))
		}
	}
	if len(out) == 0 {
		// library code: no concrete type may flow to the call under VTA; fall back to the class hierarchy
		if chaNode := a.P.CHA().Nodes[caller]; chaNode != nil {
			for _, e := range chaNode.Out {
				if e.Site != ci || e.Callee == nil || seen[e.Callee.Func] {
					continue
				}
				seen[e.Callee.Func] = true
				out = append(out, a.static(e.Callee.Func, ci.Common()))
			}
		}
	}
	if len(out) == 0 {
		a.Stats.DynUnresolved++
		c := ci.Common()
		e := calleeEff{name: "unresolved dynamic call", unknown: "unresolved dynamic call in " + core.Short(caller.String())}
		n := len(c.Args)
		if c.IsInvoke() {
			n++
		}
		// conservative: everything reachable from reference arguments may be written
		for i := 0; i < n; i++ {
			e.writes = append(e.writes, Path(fmt.Sprintf("P%d…", i)))
			e.reads = append(e.reads, Path(fmt.Sprintf("P%d…", i)))
		}
		for k := 0; k < c.Signature().Results().Len(); k++ {
			e.ret = append(e.ret, []Path{Path(fmt.Sprintf("R%d", k))})
		}
		out = append(out, e)
	}
	return out
}

// convention: effect of a function whose body is not analysed (standard
// library, x/crypto, assembly leaves). Methods write their pointer receiver
// and return it when the result type is the receiver type; body-less
// functions write their first pointer parameter; arguments are only read.
func convention(f *ssa.Function, name string) calleeEff {
	e := calleeEff{name: name, refStores: map[Path][]Path{}}
	sig := f.Signature
	np := len(f.Params)
	if np == 0 && sig.Recv() != nil {
		np = sig.Params().Len() + 1
	}
	if np == 0 {
		np = sig.Params().Len()
	}
	for i := 0; i < np; i++ {
		e.reads = append(e.reads, Path(fmt.Sprintf("P%d…", i)))
	}
	var recvT types.Type
	if sig.Recv() != nil {
		recvT = sig.Recv().Type()
		if _, isPtr := recvT.Underlying().(*types.Pointer); isPtr {
			e.writes = append(e.writes, "P0…")
		}
	} else if len(f.Blocks) == 0 && sig.Params().Len() > 0 {
		if _, isPtr := sig.Params().At(0).Type().Underlying().(*types.Pointer); isPtr {
			e.writes = append(e.writes, "P0…")
		}
	}
	for k := 0; k < sig.Results().Len(); k++ {
		rt := sig.Results().At(k).Type()
		switch {
		case recvT != nil && types.Identical(rt, recvT) && isRefType(rt):
			e.ret = append(e.ret, []Path{"P0"})
		case isRefType(rt) || HasRefs(rt):
			e.ret = append(e.ret, []Path{Path(fmt.Sprintf("R%d", k))})
		default:
			e.ret = append(e.ret, nil)
		}
	}
	return e
}

func paths(ss ...string) []Path {
	var out []Path
	for _, s := range ss {
		out = append(out, Path(s))
	}
	return out
}

// tableEff: explicit entries for external functions that deviate from the
// convention (each with its reason).
func tableEff(name string, f *ssa.Function) (calleeEff, bool) {
	e := calleeEff{name: name, refStores: map[Path][]Path{}}
	nres := f.Signature.Results().Len()
	rets := func(first []Path) {
		e.ret = append(e.ret, first)
		for k := 1; k < nres; k++ {
			e.ret = append(e.ret, nil)
		}
	}
	switch name {
	case "io.ReadFull", "io.ReadAtLeast": // fills the buffer, advances the reader
		e.writes = paths("P0…", "P1[]")
		rets(nil)
	case "encoding/binary.Read": // decodes into data
		e.writes = paths("P0…", "P2…")
		rets(nil)
	case "encoding/binary.Write":
		e.writes = paths("P0…")
		e.reads = paths("P2…")
		rets(nil)
	case "(*math/big.Int).FillBytes": // fills and returns its argument
		e.writes = paths("P1[]")
		e.reads = paths("P0…")
		rets(paths("P1"))
	case "(*math/big.Int).Bytes", "(*math/big.Int).String", "(*math/big.Int).Text", "(*math/big.Int).Cmp", "(*math/big.Int).CmpAbs", "(*math/big.Int).Sign",
		"(*math/big.Int).Bit", "(*math/big.Int).BitLen", "(*math/big.Int).Int64", "(*math/big.Int).Uint64", "(*math/big.Int).IsInt64", "(*math/big.Int).IsUint64",
		"(*math/big.Int).ProbablyPrime", "(*math/big.Int).Bits", "(*math/big.Int).TrailingZeroBits", "(*math/big.Int).Append", "(*math/big.Int).Format",
		"(*math/big.Int).MarshalText", "(*math/big.Int).MarshalJSON", "(*math/big.Int).GobEncode", "(*math/big.Int).Float64":
		e.reads = paths("P0…", "P1…")
		if nres > 0 {
			rets(paths("R0"))
		}
	case "encoding/hex.Decode", "crypto/subtle.ConstantTimeCopy", "crypto/subtle.XORBytes":
		e.writes = paths("P0[]")
		if name == "crypto/subtle.ConstantTimeCopy" {
			e.writes = paths("P1[]")
		}
		e.reads = paths("P1…", "P2…")
		rets(nil)
	case "crypto/rand.Read", "io.ReadAll":
		e.writes = paths("P0…")
		rets(paths("R0"))
	case "sort.Sort", "sort.Stable", "slices.Reverse", "sort.Slice", "slices.Sort":
		e.writes = paths("P0…")
	case "(encoding/binary.bigEndian).PutUint16", "(encoding/binary.bigEndian).PutUint32", "(encoding/binary.bigEndian).PutUint64",
		"(encoding/binary.littleEndian).PutUint16", "(encoding/binary.littleEndian).PutUint32", "(encoding/binary.littleEndian).PutUint64":
		e.writes = paths("P1[]")
	case "(*bytes.Buffer).Bytes": // aliases the buffer's storage
		e.reads = paths("P0…")
		rets(paths("P0.buf*"))
	case "(*bytes.Buffer).Read", "(*bytes.Reader).Read", "(*strings.Reader).Read", "(*bufio.Reader).Read":
		e.writes = paths("P0…", "P1[]")
		rets(nil)
	case "bytes.NewBuffer", "bytes.NewReader": // wraps its argument
		e.reads = paths("P0…")
		rets(paths("R0"))
		e.refStores["R0.buf"] = paths("P0")
	case "fmt.Sprintf", "fmt.Errorf", "fmt.Sprint", "fmt.Sprintln", "errors.New", "fmt.Fprintf", "fmt.Println", "fmt.Printf", "fmt.Print":
		e.reads = paths("P0…", "P1…", "P2…")
		if nres > 0 {
			rets(paths("R0"))
		}
	default:
		if strings.HasPrefix(name, "(*crypto/elliptic.nistCurve[") || strings.HasPrefix(name, "(*crypto/elliptic.CurveParams).") {
			// immutable curve objects of the standard library (see ifaceContract)
			e.reads = paths("P0…", "P1…", "P2…", "P3…", "P4…")
			for k := 0; k < nres; k++ {
				if isRefType(f.Signature.Results().At(k).Type()) {
					e.ret = append(e.ret, []Path{Path(fmt.Sprintf("R%d", k))})
				} else {
					e.ret = append(e.ret, nil)
				}
			}
			return e, true
		}
		if strings.HasPrefix(name, "(*sync.") || strings.HasPrefix(name, "sync/atomic.") || strings.HasPrefix(name, "(*sync/atomic.") {
			// synchronisation primitives: internally synchronised state, not a data race
			for k := 0; k < nres; k++ {
				e.ret = append(e.ret, nil)
			}
			return e, true
		}
		return e, false
	}
	return e, true
}

// ifaceContract: effects of dynamic calls on the interfaces of the kyber API
// and of the standard library, by method name (assume–guarantee: every module
// implementation of kyber.Point / Scalar / XOF is checked against the same
// contract by EFX-OPI / EFX-RO / SH-RET).
func ifaceContract(c *ssa.CallCommon) (calleeEff, bool) {
	m := c.Method.Name()
	e := calleeEff{name: "(" + core.Short(types.TypeString(c.Value.Type(), nil)) + ")." + m, refStores: map[Path][]Path{}}
	n := len(c.Args) + 1
	nres := c.Signature().Results().Len()
	readAll := func() {
		for i := 0; i < n; i++ {
			e.reads = append(e.reads, Path(fmt.Sprintf("P%d…", i)))
		}
	}
	retFresh := func() {
		for k := 0; k < nres; k++ {
			if isRefType(c.Signature().Results().At(k).Type()) {
				e.ret = append(e.ret, []Path{Path(fmt.Sprintf("R%d", k))})
			} else {
				e.ret = append(e.ret, nil)
			}
		}
	}
	if ts := types.TypeString(c.Value.Type(), nil); ts == "crypto/elliptic.Curve" {
		// the standard curve object is immutable: Add / Double / ScalarMult / ScalarBaseMult / IsOnCurve /
		// Params read their arguments and return fresh big.Ints (Params: the shared parameter block)
		readAll()
		retFresh()
		return e, true
	}
	switch m {
	// read-only methods
	case "Equal", "String", "MarshalBinary", "MarshalSize", "Data", "EmbedLen", "PointLen", "ScalarLen", "ByteOrder", "GroupOrder",
		"IsCanonical", "HasSmallOrder", "IsInCorrectGroup", "Size", "BlockSize", "Len", "Error", "MarshalID", "KeySize", "Order",
		"CountEnabled", "CountTotal", "Threshold", "NonceSize", "Overhead", "Params", "IsOnCurve", "Check", "ValidatePairing":
		readAll()
		retFresh()
	case "Clone", "Point", "Scalar", "Hash", "XOF", "RandomStream", "G1", "G2", "GT", "New", "Pair":
		if m == "Hash" && nres == 1 && len(c.Args) == 1 {
			// HashablePoint.Hash(msg) sets and returns the receiver
			readAll()
			e.writes = paths("P0…")
			e.ret = [][]Path{paths("P0")}
			return e, true
		}
		readAll()
		retFresh()
	case "MarshalTo": // writes the writer only
		readAll()
		e.writes = paths("P1…")
		retFresh()
	// mutators of kyber.Point / kyber.Scalar: write and return the receiver
	case "Null", "Base", "Set", "Embed", "Add", "Sub", "Neg", "Mul", "SetInt64", "Zero", "One", "Div", "Inv", "SetBytes", "Pick":
		readAll()
		e.writes = paths("P0…")
		if m == "Pick" || m == "Embed" { // the stream advances
			e.writes = append(e.writes, Path(fmt.Sprintf("P%d…", n-1)))
		}
		if nres == 1 {
			e.ret = [][]Path{paths("P0")}
		} else {
			retFresh()
		}
	case "UnmarshalBinary":
		readAll()
		e.writes = paths("P0…")
		retFresh()
	case "UnmarshalFrom":
		readAll()
		e.writes = paths("P0…", "P1…")
		retFresh()
	// streams, readers, writers, hashes, XOFs
	case "XORKeyStream":
		readAll()
		e.writes = paths("P0…", "P1[]")
	case "Read":
		readAll()
		e.writes = paths("P0…", "P1[]")
		retFresh()
	case "Write", "Reseed", "Reset", "WriteString", "WriteByte":
		readAll()
		e.writes = paths("P0…")
		retFresh()
	case "Sum":
		readAll()
		e.writes = paths("P1[]")
		e.ret = [][]Path{paths("P1", "R0")}
	case "Seal", "Open":
		readAll()
		e.writes = paths("P1[]")
		e.ret = [][]Path{paths("P1", "R0")}
		for k := 1; k < nres; k++ {
			e.ret = append(e.ret, nil)
		}
	case "Encrypt", "Decrypt":
		readAll()
		e.writes = paths("P1[]")
	default:
		return e, false
	}
	return e, true
}
