package efx

import (
	"fmt"
	"go/constant"
	"go/token"
	"go/types"
	"strings"

	"golang.org/x/tools/go/callgraph"
	"golang.org/x/tools/go/ssa"

	"kyverif/internal/core"
)

// Summary of one function, over its own parameter roots.
type Summary struct {
	Fn        *ssa.Function
	Writes    PathSet
	Reads     PathSet
	Ret       []PathSet
	RefStores map[Path]PathSet // region -> origins of references stored into it
	WritePos  map[Path]token.Pos
	WriteWhy  map[Path]string
	Unknown   []string
	partial   bool
}

func newSummary(fn *ssa.Function, nres int) *Summary {
	s := &Summary{Fn: fn, Writes: PathSet{}, Reads: PathSet{}, RefStores: map[Path]PathSet{}, WritePos: map[Path]token.Pos{}, WriteWhy: map[Path]string{}}
	for i := 0; i < nres; i++ {
		s.Ret = append(s.Ret, PathSet{})
	}
	return s
}

type Analyzer struct {
	P      *core.Prog
	memo   map[*ssa.Function]*Summary
	inprog map[*ssa.Function]bool
	hitRec map[*ssa.Function]bool
	states map[*ssa.Function]*fnState
	mustMemo  map[*ssa.Function]PathSet
	mustBusy  map[*ssa.Function]bool
	aliasMemo map[string][]Hazard
	aliasBusy map[string]bool
	// AliasSafeLeaves: callees assumed alias-safe (not analysed from source)
	AliasSafeLeaves map[string]bool
	cgNode func(fn *ssa.Function) *callgraph.Node
	Stats  struct{ Funcs, Dyn, DynUnresolved, Contract, External int }
}

func NewAnalyzer(p *core.Prog) *Analyzer {
	a := &Analyzer{P: p, memo: map[*ssa.Function]*Summary{}, inprog: map[*ssa.Function]bool{}, hitRec: map[*ssa.Function]bool{},
		states: map[*ssa.Function]*fnState{}, mustMemo: map[*ssa.Function]PathSet{}, mustBusy: map[*ssa.Function]bool{}, aliasMemo: map[string][]Hazard{}, aliasBusy: map[string]bool{}, AliasSafeLeaves: map[string]bool{}}
	return a
}

// analysable: functions outside the standard library are analysed from their
// SSA bodies (the kyber module, the three BLS12-381 back-ends, x/crypto,
// fixbuf); the standard library is summarised by API convention / table.
func analysable(fn *ssa.Function) bool {
	if len(fn.Blocks) == 0 {
		return false
	}
	pp := core.PkgPathOf(fn)
	first := pp
	if i := strings.Index(pp, "/"); i >= 0 {
		first = pp[:i]
	}
	return strings.Contains(first, ".")
}

func (a *Analyzer) Summary(fn *ssa.Function) *Summary {
	if s, ok := a.memo[fn]; ok {
		return s
	}
	if a.inprog[fn] {
		a.hitRec[fn] = true
		s := newSummary(fn, fn.Signature.Results().Len())
		s.partial = true
		return s
	}
	a.inprog[fn] = true
	var s *Summary
	for iter := 0; iter < 3; iter++ {
		a.hitRec[fn] = false
		s = a.analyze(fn)
		if !a.hitRec[fn] {
			break
		}
		a.memo[fn] = s // provisional for recursive uses
	}
	delete(a.inprog, fn)
	a.memo[fn] = s
	a.Stats.Funcs++
	return s
}

// ---- per-function analysis --------------------------------------------------

type fnState struct {
	a       *Analyzer
	fn      *ssa.Function
	org     map[ssa.Value]PathSet
	content map[Path]PathSet // region -> origins of references stored there
	copies  map[Path]PathSet // region -> regions whose value (struct/array with references) was copied into it
	dead    map[*ssa.BasicBlock]bool
	deadEdge map[[2]*ssa.BasicBlock]bool
	sum     *Summary
	changed bool
	tup     map[tupleKey]PathSet
}

func hasRefs(t types.Type, seen map[types.Type]bool) bool {
	if seen[t] {
		return false
	}
	seen[t] = true
	switch u := t.Underlying().(type) {
	case *types.Pointer, *types.Slice, *types.Map, *types.Chan, *types.Interface, *types.Signature:
		return true
	case *types.Struct:
		for i := 0; i < u.NumFields(); i++ {
			if hasRefs(u.Field(i).Type(), seen) {
				return true
			}
		}
	case *types.Array:
		return hasRefs(u.Elem(), seen)
	case *types.Basic:
		return u.Kind() == types.String && false
	}
	return false
}

func HasRefs(t types.Type) bool { return hasRefs(t, map[types.Type]bool{}) }

func isRefType(t types.Type) bool {
	switch t.Underlying().(type) {
	case *types.Pointer, *types.Slice, *types.Map, *types.Chan, *types.Interface, *types.Signature:
		return true
	}
	return false
}

func (st *fnState) get(v ssa.Value) PathSet {
	if v == nil {
		return nil
	}
	if s, ok := st.org[v]; ok {
		return s
	}
	var s PathSet
	switch x := v.(type) {
	case *ssa.Parameter:
		for i, p := range st.fn.Params {
			if p == x {
				s = PathSet{Path(fmt.Sprintf("P%d", i)): true}
			}
		}
	case *ssa.FreeVar:
		// free variables of a closure are pseudo-parameters after the real ones
		for i, fv := range st.fn.FreeVars {
			if fv == x {
				s = PathSet{Path(fmt.Sprintf("P%d", len(st.fn.Params)+i)): true}
			}
		}
	case *ssa.Global:
		s = PathSet{Path("G:" + core.Short(x.String())): true}
	case *ssa.Const, *ssa.Function, *ssa.Builtin:
		s = PathSet{}
	default:
		s = PathSet{}
	}
	st.org[v] = s
	return s
}

func (st *fnState) add(v ssa.Value, ps PathSet) {
	s := st.get(v)
	for p := range ps {
		if !s[p] {
			s[p] = true
			st.changed = true
		}
	}
}
func (st *fnState) add1(v ssa.Value, p Path) {
	s := st.get(v)
	if !s[p] {
		s[p] = true
		st.changed = true
	}
}

func (st *fnState) write(p Path, pos token.Pos, why string) {
	r := p.Root()
	if !(IsParamRoot(r) || IsGlobalRoot(r)) {
		return
	}
	if !st.sum.Writes[p] {
		st.sum.Writes[p] = true
		st.sum.WritePos[p] = pos
		st.sum.WriteWhy[p] = why
		st.changed = true
	}
}
func (st *fnState) read(p Path) {
	r := p.Root()
	if !(IsParamRoot(r) || IsGlobalRoot(r)) {
		return
	}
	if !st.sum.Reads[p] {
		st.sum.Reads[p] = true
		st.changed = true
	}
}

// storeRef records that region tgt may now hold references to the origins src.
func (st *fnState) storeRef(tgt Path, src PathSet) {
	if len(src) == 0 {
		return
	}
	c := st.content[tgt]
	if c == nil {
		c = PathSet{}
		st.content[tgt] = c
	}
	for p := range src {
		if !c[p] {
			c[p] = true
			st.changed = true
		}
	}
}

func (a *Analyzer) analyze(fn *ssa.Function) *Summary {
	sum, st := a.analyzeWith(fn, nil)
	a.states[fn] = st
	return sum
}

// analyzeWith analyses fn ignoring the blocks in dead (and phi edges from them).
func (a *Analyzer) analyzeWith(fn *ssa.Function, dead map[*ssa.BasicBlock]bool, deadEdge ...map[[2]*ssa.BasicBlock]bool) (*Summary, *fnState) {
	st := &fnState{a: a, fn: fn, org: map[ssa.Value]PathSet{}, content: map[Path]PathSet{}, copies: map[Path]PathSet{}, dead: dead}
	if len(deadEdge) > 0 {
		st.deadEdge = deadEdge[0]
		if st.dead == nil {
			st.dead = map[*ssa.BasicBlock]bool{}
		}
	}
	st.sum = newSummary(fn, fn.Signature.Results().Len())
	fresh := 0
	freshOf := map[ssa.Instruction]Path{}
	fp := func(in ssa.Instruction) Path {
		if p, ok := freshOf[in]; ok {
			return p
		}
		fresh++
		p := Path(fmt.Sprintf("F:%d", fresh))
		freshOf[in] = p
		return p
	}
	for iter := 0; iter < 50; iter++ {
		st.changed = false
		for _, b := range fn.Blocks {
			if dead[b] {
				continue
			}
			for _, in := range b.Instrs {
				st.step(in, fp)
			}
		}
		if !st.changed {
			break
		}
	}
	// summary extraction: returns
	for _, b := range fn.Blocks {
		if dead[b] {
			continue
		}
		for _, in := range b.Instrs {
			r, ok := in.(*ssa.Return)
			if !ok {
				continue
			}
			for k, v := range r.Results {
				for p := range st.get(v) {
					root := p.Root()
					switch {
					case IsParamRoot(root) || IsGlobalRoot(root):
						st.sum.Ret[k][p] = true
					case strings.HasPrefix(root, "F:"):
						st.sum.Ret[k][p.Rebase(Path(fmt.Sprintf("R%d", k)))] = true
						// contents of the fresh object that refer to params/globals
						for tgt, srcs := range st.content {
							if tgt.Root() != root {
								continue
							}
							for s := range srcs {
								sr := s.Root()
								if IsParamRoot(sr) || IsGlobalRoot(sr) {
									t2 := tgt.Rebase(Path(fmt.Sprintf("R%d", k)))
									if st.sum.RefStores[t2] == nil {
										st.sum.RefStores[t2] = PathSet{}
									}
									st.sum.RefStores[t2][s] = true
								}
							}
						}
					}
				}
			}
		}
	}
	for tgt, srcs := range st.content {
		r := tgt.Root()
		if !(IsParamRoot(r) || IsGlobalRoot(r)) {
			continue
		}
		for s := range srcs {
			sr := s.Root()
			if IsParamRoot(sr) || IsGlobalRoot(sr) {
				if st.sum.RefStores[tgt] == nil {
					st.sum.RefStores[tgt] = PathSet{}
				}
				st.sum.RefStores[tgt][s] = true
			}
		}
	}
	return st.sum, st
}

// refsAt: origins of the reference held in region r: what was stored there,
// the unknown initial pointee, and the same for every region r was copied from.
func (st *fnState) refsAt(r Path) PathSet {
	out := PathSet{r.Ext("*"): true}
	out.AddAll(st.content[r])
	for t, srcs := range st.copies {
		if !Under(r, t) {
			continue
		}
		rel := Path("X" + strings.Join(r.RelTo(t), ""))
		for s := range srcs {
			sr := rel.Rebase(s)
			out[sr.Ext("*")] = true
			out.AddAll(st.content[sr])
		}
	}
	return out
}

func (st *fnState) step(in ssa.Instruction, fp func(ssa.Instruction) Path) {
	switch x := in.(type) {
	case *ssa.Alloc:
		st.add1(x, fp(x))
	case *ssa.MakeSlice:
		st.add1(x, fp(x))
	case *ssa.MakeMap:
		st.add1(x, fp(x))
	case *ssa.MakeChan:
		st.add1(x, fp(x))
	case *ssa.MakeClosure:
		st.add1(x, fp(x))
		for _, b := range x.Bindings {
			st.storeRef(fp(x), st.get(b))
		}
	case *ssa.FieldAddr:
		name := x.X.Type().Underlying().(*types.Pointer).Elem().Underlying().(*types.Struct).Field(x.Field).Name()
		for p := range st.get(x.X) {
			st.add1(x, p.Ext("."+name))
		}
	case *ssa.Field:
		name := x.X.Type().Underlying().(*types.Struct).Field(x.Field).Name()
		for p := range st.get(x.X) {
			r := p.Ext("." + name)
			st.read(r)
			if isRefType(x.Type()) {
				// the VALUE of a reference field: what the region holds
				st.add(x, st.refsAt(r))
			} else {
				st.add1(x, r)
			}
		}
	case *ssa.IndexAddr:
		sel := idxSel(x.Index)
		for p := range st.get(x.X) {
			st.add1(x, p.Ext(sel))
		}
	case *ssa.Index:
		for p := range st.get(x.X) {
			r := p.Ext(idxSel(x.Index))
			st.read(r)
			if isRefType(x.Type()) {
				st.add(x, st.refsAt(r))
			} else {
				st.add1(x, r)
			}
		}
	case *ssa.Lookup:
		for p := range st.get(x.X) {
			e := p.Ext("[]")
			st.read(e)
			if isRefType(elemOfLookup(x)) {
				st.add1(x, e.Ext("*"))
				st.add(x, st.content[e])
			} else {
				st.add1(x, e)
			}
		}
	case *ssa.Slice:
		st.add(x, st.get(x.X))
	case *ssa.Phi:
		for i, e := range x.Edges {
			if st.dead != nil && (st.dead[x.Block().Preds[i]] || st.deadEdge[[2]*ssa.BasicBlock{x.Block().Preds[i], x.Block()}]) {
				continue
			}
			st.add(x, st.get(e))
		}
	case *ssa.ChangeType:
		st.add(x, st.get(x.X))
	case *ssa.Convert:
		_, fromStr := x.X.Type().Underlying().(*types.Basic)
		_, toStr := x.Type().Underlying().(*types.Basic)
		if fromStr != toStr {
			st.add1(x, fp(x)) // string <-> []byte conversion copies
		} else {
			st.add(x, st.get(x.X))
		}
	case *ssa.MultiConvert:
		st.add(x, st.get(x.X))
	case *ssa.ChangeInterface:
		st.add(x, st.get(x.X))
	case *ssa.SliceToArrayPointer:
		st.add(x, st.get(x.X))
	case *ssa.MakeInterface:
		st.add(x, st.get(x.X))
	case *ssa.TypeAssert:
		st.add(x, st.get(x.X))
	case *ssa.Extract:
		st.add(x, st.extract(x))
	case *ssa.UnOp:
		if x.Op == token.MUL {
			for p := range st.get(x.X) {
				st.read(p)
				if isRefType(x.Type()) {
					st.add(x, st.refsAt(p))
				} else {
					// value copy of the region (struct / array / scalar)
					st.add1(x, p)
				}
			}
		} else {
			st.add(x, st.get(x.X))
		}
	case *ssa.BinOp:
		// strings / numbers: no references
	case *ssa.Store:
		for p := range st.get(x.Addr) {
			st.write(p, x.Pos(), "store")
			vt := x.Val.Type()
			if isRefType(vt) {
				st.storeRef(p, st.get(x.Val))
			} else if HasRefs(vt) {
				// struct/array value containing references copied by value:
				// the target's reference fields now alias the source's
				for s := range st.get(x.Val) {
					st.storeRef(p, PathSet{s.Ext("…"): true})
					if s != p {
						c := st.copies[p]
						if c == nil {
							c = PathSet{}
							st.copies[p] = c
						}
						if !c[s] {
							c[s] = true
							st.changed = true
						}
					}
				}
			}
		}
	case *ssa.MapUpdate:
		for p := range st.get(x.Map) {
			e := p.Ext("[]")
			st.write(e, x.Pos(), "map update")
			if isRefType(x.Value.Type()) || HasRefs(x.Value.Type()) {
				st.storeRef(e, st.get(x.Value))
			}
			if isRefType(x.Key.Type()) {
				st.storeRef(e, st.get(x.Key))
			}
		}
	case *ssa.Range:
		st.add(x, st.get(x.X))
	case *ssa.Next:
		// tuple (ok, key, value): value origins derive from the ranged map
		if r, ok := x.Iter.(*ssa.Range); ok {
			for p := range st.get(r) {
				e := p.Ext("[]")
				st.read(e)
				st.add1(x, e.Ext("*"))
				st.add(x, st.content[e])
			}
		}
	case *ssa.Send:
		for p := range st.get(x.Chan) {
			st.storeRef(p.Ext("[]"), st.get(x.X))
		}
	case ssa.CallInstruction:
		st.call(x, fp)
	}
}

// idxSel: "[k]" for a small constant index, "[]" otherwise.
func idxSel(v ssa.Value) string {
	if c, ok := v.(*ssa.Const); ok && c.Value != nil {
		if k, ok := constant.Int64Val(constant.ToInt(c.Value)); ok && k >= 0 && k < 4096 {
			return fmt.Sprintf("[%d]", k)
		}
	}
	return "[]"
}

func elemOfLookup(x *ssa.Lookup) types.Type {
	if m, ok := x.X.Type().Underlying().(*types.Map); ok {
		return m.Elem()
	}
	return types.Typ[types.Byte]
}

// tuple results: origins are kept per component under a synthetic key
type tupleKey struct {
	v ssa.Value
	i int
}

func (st *fnState) extract(x *ssa.Extract) PathSet {
	switch t := x.Tuple.(type) {
	case *ssa.TypeAssert:
		if x.Index == 0 {
			return st.get(t.X)
		}
		return nil
	case *ssa.Lookup:
		if x.Index == 0 {
			return st.get(t)
		}
		return nil
	case *ssa.Next:
		if x.Index == 2 || x.Index == 1 {
			return st.get(t)
		}
		return nil
	case *ssa.Call:
		if ps, ok := st.tuples()[tupleKey{t, x.Index}]; ok {
			return ps
		}
	case *ssa.UnOp: // <-chan commaok
		return st.get(t)
	}
	return nil
}

func (st *fnState) tuples() map[tupleKey]PathSet {
	if st.tup == nil {
		st.tup = map[tupleKey]PathSet{}
	}
	return st.tup
}
