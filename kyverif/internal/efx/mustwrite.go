package efx

import (
	"fmt"
	"sort"
	"strings"

	"golang.org/x/tools/go/ssa"

	"kyverif/internal/apo"
)

// MustWrites: parameter-rooted regions (cut to three selectors) written on
// EVERY path from entry to a normal return (flow-sensitive must analysis;
// join = intersection; callees contribute their own must-writes). Panicking
// paths do not count as returns.
func (a *Analyzer) MustWrites(fn *ssa.Function) PathSet {
	if r, ok := a.mustMemo[fn]; ok {
		return r
	}
	res := a.mustWrites(fn, false)
	a.mustMemo[fn] = res
	return res
}

// MustWritesResult: regions of the freshly allocated object returned as
// result 0 that are assigned on every path to an accepting return ("R0.f").
func (a *Analyzer) MustWritesResult(fn *ssa.Function) PathSet {
	all := a.mustWrites(fn, true)
	st := a.states[fn]
	out := PathSet{}
	if st == nil {
		return out
	}
	roots := map[string]bool{}
	for _, b := range fn.Blocks {
		if r, ok := b.Instrs[len(b.Instrs)-1].(*ssa.Return); ok && len(r.Results) > 0 {
			for p := range st.get(r.Results[0]) {
				if strings.HasPrefix(p.Root(), "F:") && p.nsel() == 0 {
					roots[p.Root()] = true
				}
			}
		}
	}
	for p := range all {
		if roots[p.Root()] {
			out[p.Rebase("R0")] = true
		}
	}
	return out
}

func (a *Analyzer) mustWrites(fn *ssa.Function, fresh bool) PathSet {
	// only returns that may report success count (a decoder need not assign its
	// receiver on the paths that return an error)
	accepting := apo.AcceptingReturns(fn)
	if a.mustBusy[fn] || len(fn.Blocks) == 0 {
		return PathSet{}
	}
	a.mustBusy[fn] = true
	defer delete(a.mustBusy, fn)
	a.Summary(fn)
	st := a.states[fn]
	if st == nil {
		return PathSet{}
	}
	gen := map[*ssa.BasicBlock]PathSet{}
	for _, b := range fn.Blocks {
		g := PathSet{}
		for _, in := range b.Instrs {
			switch x := in.(type) {
			case *ssa.Store:
				if p, ok := definiteParamPath(st.get(x.Addr)); ok {
					g[cut3(p)] = true
				} else if fresh {
					if ps := st.get(x.Addr); len(ps) == 1 {
						for p := range ps {
							g[cut3(p)] = true
						}
					}
				}
			case ssa.CallInstruction:
				for _, p := range a.callMustWrites(st, x, fresh) {
					g[cut3(p)] = true
				}
			}
		}
		gen[b] = g
	}
	// forward must dataflow
	in := map[*ssa.BasicBlock]PathSet{fn.Blocks[0]: {}}
	changed := true
	for changed {
		changed = false
		for _, b := range fn.Blocks {
			if b.Index != 0 {
				var acc PathSet
				first := true
				for _, p := range b.Preds {
					pin, ok := in[p]
					if !ok {
						continue
					}
					out := PathSet{}
					out.AddAll(pin)
					out.AddAll(gen[p])
					if first {
						acc, first = out, false
					} else {
						for k := range acc {
							if !covered(out, k) {
								delete(acc, k)
							}
						}
						for k := range out {
							if covered(acc, k) && !acc[k] {
								// keep the finer region when the other side only has a coarser cover
								_ = k
							}
						}
					}
				}
				if first {
					continue
				}
				old, had := in[b]
				if !had || len(old) != len(acc) {
					in[b] = acc
					changed = true
				} else {
					for k := range acc {
						if !old[k] {
							in[b] = acc
							changed = true
							break
						}
					}
				}
			}
		}
	}
	var res PathSet
	first := true
	for _, b := range fn.Blocks {
		ret, ok := b.Instrs[len(b.Instrs)-1].(*ssa.Return)
		if !ok || !accepting[ret] {
			continue
		}
		bin, ok := in[b]
		if !ok {
			continue
		}
		out := PathSet{}
		out.AddAll(bin)
		out.AddAll(gen[b])
		if first {
			res, first = out, false
		} else {
			for k := range res {
				if !covered(out, k) {
					delete(res, k)
				}
			}
		}
	}
	if res == nil {
		res = PathSet{}
	}
	return res
}

func covered(s PathSet, r Path) bool {
	for w := range s {
		if Under(r, w) {
			return true
		}
	}
	return false
}

func cut3(p Path) Path {
	root, sels := p.split()
	if len(sels) > 3 {
		sels = sels[:3]
	}
	out := root + strings.Join(sels, "")
	return Path(strings.TrimSuffix(out, "…"))
}

var readOnlyNames = map[string]bool{"Equal": true, "String": true, "MarshalBinary": true, "MarshalSize": true, "Cmp": true, "Sign": true, "Bit": true,
	"BitLen": true, "Bytes": true, "IsZero": true, "IsOne": true, "Clone": true, "Data": true, "IsInfinity": true, "IsOnCurve": true, "Len": true,
	"FillBytes": true, "Int64": true, "Uint64": true, "Text": true, "ProbablyPrime": true, "CmpAbs": true, "IsInt64": true, "Size": true, "Sum": true}

// callMustWrites: regions (caller roots) a call definitely writes.
func (a *Analyzer) callMustWrites(st *fnState, ci ssa.CallInstruction, fresh bool) []Path {
	c := ci.Common()
	var args []ssa.Value
	if c.IsInvoke() {
		args = append(args, c.Value)
	}
	args = append(args, c.Args...)
	definite := func(v ssa.Value) (Path, bool) {
		if p, ok := definiteParamPath(st.get(v)); ok {
			return p, true
		}
		if fresh {
			// constructors: the object under construction handed to a helper that fills part of it
			if ps := st.get(v); len(ps) == 1 {
				for p := range ps {
					return p, true
				}
			}
		}
		return "", false
	}
	var out []Path
	if c.IsInvoke() {
		if e, ok := ifaceContract(c); ok {
			for _, w := range e.writes {
				if w == "P0…" {
					if p, ok := definite(args[0]); ok {
						out = append(out, p)
					}
				}
			}
		}
		return out
	}
	f := c.StaticCallee()
	if f == nil {
		// a function value selected among a few known functions (`mult := f; if fast { mult = g }; mult(…)`):
		// what every candidate writes
		cands := funcCandidates(c.Value, 0)
		if len(cands) == 0 {
			return nil
		}
		var common map[Path]bool
		for _, g := range cands {
			if !analysable(g) {
				return nil
			}
			cur := map[Path]bool{}
			for w := range a.MustWrites(g) {
				var i int
				fmt.Sscanf(w.Root(), "P%d", &i)
				if i < len(args) {
					if base, ok := definite(args[i]); ok {
						cur[w.Rebase(base)] = true
					}
				}
			}
			if common == nil {
				common = cur
			} else {
				for p := range common {
					if !cur[p] {
						delete(common, p)
					}
				}
			}
		}
		for p := range common {
			out = append(out, p)
		}
		return out
	}
	if analysable(f) {
		for w := range a.MustWrites(f) {
			var i int
			fmt.Sscanf(w.Root(), "P%d", &i)
			if i < len(args) {
				if base, ok := definite(args[i]); ok {
					out = append(out, w.Rebase(base))
				}
			}
		}
		return out
	}
	// convention: an external pointer-receiver method that is not a reader writes its receiver
	if f.Signature.Recv() != nil && len(args) > 0 && !readOnlyNames[f.Name()] {
		if p, ok := definite(args[0]); ok {
			out = append(out, p)
		}
	} else if len(f.Blocks) == 0 && f.Signature.Recv() == nil && len(args) > 0 {
		if p, ok := definite(args[0]); ok { // body-less leaf: first pointer parameter is the output
			out = append(out, p)
		}
	}
	return out
}

func (s PathSet) SortedPaths() []Path {
	var out []Path
	for p := range s {
		out = append(out, p)
	}
	sort.Slice(out, func(i, j int) bool { return out[i] < out[j] })
	return out
}

// definiteParamPath: the single parameter-rooted access path among the
// origins (locally allocated objects that were stored into that path, e.g.
// `if p.g == nil { p.g = new(T) }`, do not make it ambiguous).
func definiteParamPath(ps PathSet) (Path, bool) {
	var found Path
	n := 0
	for p := range ps {
		r := p.Root()
		switch {
		case IsParamRoot(r):
			found = p
			n++
		case strings.HasPrefix(r, "F:"):
		default:
			return "", false
		}
	}
	return found, n == 1
}

// funcCandidates: the functions a called value may be, when it is a merge of function constants.
func funcCandidates(v ssa.Value, depth int) []*ssa.Function {
	if depth > 3 {
		return nil
	}
	switch x := v.(type) {
	case *ssa.Function:
		return []*ssa.Function{x}
	case *ssa.Phi:
		var out []*ssa.Function
		for _, e := range x.Edges {
			c := funcCandidates(e, depth+1)
			if len(c) == 0 {
				return nil
			}
			out = append(out, c...)
		}
		return out
	case *ssa.ChangeType:
		return funcCandidates(x.X, depth+1)
	}
	return nil
}

// OriginsOf returns the abstract regions a value of fn may denote (nil when
// fn has no body).
func (a *Analyzer) OriginsOf(fn *ssa.Function, v ssa.Value) PathSet {
	a.Summary(fn)
	st := a.states[fn]
	if st == nil {
		return nil
	}
	return st.get(v)
}
