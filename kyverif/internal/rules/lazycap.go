package rules

import (
	"fmt"
	"go/token"
	"strings"

	"golang.org/x/tools/go/ssa"

	"kyverif/internal/core"
)

// EFX-LAZYCAP: a variable of an outer function that a closure initialises
// once — under `if v == nil` — from values that depend on the closure's own
// parameters (or on parameters of a function between the variable's owner and
// the closure). The variable outlives the call: the second call, with other
// arguments, finds v set and reuses what the first call computed (a stale
// cache: `if XUp == nil { XUp, … = GetSequenceVerifiable(…, e) }` inside
// getProver(e) made every proof for a second challenge vector wrong).
// Expected count on the unchanged tree: zero; every store to a captured
// variable inside a closure is counted.
func LazyCapture(c *Ctx, cfg string, pkgs []string) {
	p := c.Prog(cfg)
	if p == nil {
		return
	}
	n := 0
	for _, fn := range p.ModuleFuncs() {
		pp := core.Short(core.PkgPathOf(fn))
		ok := false
		for _, x := range pkgs {
			if pp == x || strings.HasPrefix(pp, x+"/") {
				ok = true
			}
		}
		if !ok {
			continue
		}
		var visit func(f *ssa.Function)
		visit = func(f *ssa.Function) {
			for _, an := range f.AnonFuncs {
				lazyCapIn(c, p, an, &n)
				visit(an)
			}
		}
		if fn.Parent() == nil {
			visit(fn)
		}
	}
	c.R.Ok("EFX-LAZYCAP", "module", fmt.Sprintf("packages %s", strings.Join(pkgs, ",")), "", fmt.Sprintf("%d stores to captured variables inside closures examined", n), false)
}

// ownerOf resolves a free variable of closure f to the function that declares the variable.
func ownerOf(f *ssa.Function, fv *ssa.FreeVar) (*ssa.Function, ssa.Value) {
	for depth := 0; depth < 6 && f.Parent() != nil; depth++ {
		idx := -1
		for i, x := range f.FreeVars {
			if x == fv {
				idx = i
			}
		}
		if idx < 0 {
			return nil, nil
		}
		par := f.Parent()
		var bind ssa.Value
		for _, b := range par.Blocks {
			for _, in := range b.Instrs {
				if mc, ok := in.(*ssa.MakeClosure); ok && mc.Fn == f && idx < len(mc.Bindings) {
					bind = mc.Bindings[idx]
				}
			}
		}
		if bind == nil {
			return nil, nil
		}
		if up, ok := bind.(*ssa.FreeVar); ok {
			f, fv = par, up
			continue
		}
		return par, bind
	}
	return nil, nil
}

func inside(f, owner *ssa.Function) bool { // f strictly nested in owner
	for x := f; x != nil; x = x.Parent() {
		if x == owner {
			return x != f
		}
	}
	return false
}

func lazyCapIn(c *Ctx, p *core.Prog, f *ssa.Function, n *int) {
	for _, b := range f.Blocks {
		for _, in := range b.Instrs {
			st, ok := in.(*ssa.Store)
			if !ok {
				continue
			}
			fv, ok := st.Addr.(*ssa.FreeVar)
			if !ok {
				continue
			}
			*n++
			owner, _ := ownerOf(f, fv)
			if owner == nil {
				continue
			}
			// guarded by a nil test of the same variable (on the "is nil" branch)?
			guarded := nilGuarded(f, b, fv)
			if !guarded {
				continue
			}
			// an accumulator ("first element seen") is also assigned outside the guard; a cache is not
			acc := false
			for _, b2 := range f.Blocks {
				for _, in2 := range b2.Instrs {
					if st2, ok := in2.(*ssa.Store); ok && st2.Addr == fv && !nilGuarded(f, b2, fv) {
						acc = true
					}
				}
			}
			if acc {
				continue
			}
			if par := dependsOnInnerParam(f, st.Val, owner, map[ssa.Value]bool{}, 0); par != "" {
				c.R.Bad("EFX-LAZYCAP", shortFn(f), "captured variable "+fv.Name(), p.Pos(st.Pos()),
					fmt.Sprintf("a variable of %s is initialised once, under a nil test, from a value that depends on parameter %s of a closure: later calls with other arguments reuse what the first call computed", shortFn(owner), par))
			}
		}
	}
}

// nilGuarded: block b is reached only through the "is nil" branch of a test of *fv against nil.
func nilGuarded(f *ssa.Function, b *ssa.BasicBlock, fv *ssa.FreeVar) bool {
	for _, d := range f.Blocks {
		ifi, ok := d.Instrs[len(d.Instrs)-1].(*ssa.If)
		if !ok || d == b {
			continue
		}
		cmp, ok := ifi.Cond.(*ssa.BinOp)
		if !ok || (cmp.Op != token.EQL && cmp.Op != token.NEQ) {
			continue
		}
		hit := false
		for _, pair := range [][2]ssa.Value{{cmp.X, cmp.Y}, {cmp.Y, cmp.X}} {
			ld, isLd := pair[0].(*ssa.UnOp)
			k, isC := pair[1].(*ssa.Const)
			if isLd && isC && k.IsNil() && ld.Op == token.MUL && ld.X == fv {
				hit = true
			}
		}
		if !hit {
			continue
		}
		br := d.Succs[0] // taken when the comparison is true
		if cmp.Op == token.NEQ {
			br = d.Succs[1]
		}
		if len(br.Preds) == 1 && br.Dominates(b) {
			return true
		}
	}
	return false
}

// dependsOnInnerParam walks the operands of v backwards (through captured cells and
// closure bindings) and reports a parameter of a function strictly inside owner.
func dependsOnInnerParam(f *ssa.Function, v ssa.Value, owner *ssa.Function, seen map[ssa.Value]bool, depth int) string {
	if v == nil || seen[v] || depth > 40 {
		return ""
	}
	seen[v] = true
	switch x := v.(type) {
	case *ssa.Parameter:
		if x.Parent() != nil && inside(x.Parent(), owner) {
			return x.Name()
		}
		return ""
	case *ssa.FreeVar:
		g := x.Parent()
		o, bind := ownerOf(g, x)
		if o == nil {
			return ""
		}
		if !inside(o, owner) {
			return "" // a variable of the owner or of something outside it: not per-call state
		}
		// the cell lives in an inner function: what was stored into it there
		return storedInto(o, bind, owner, seen, depth+1)
	case *ssa.Alloc:
		return storedInto(x.Parent(), x, owner, seen, depth+1)
	case *ssa.Const, *ssa.Global, *ssa.Function, *ssa.Builtin:
		return ""
	}
	if in, ok := v.(ssa.Instruction); ok {
		for _, op := range in.Operands(nil) {
			if op == nil || *op == nil {
				continue
			}
			if r := dependsOnInnerParam(f, *op, owner, seen, depth+1); r != "" {
				return r
			}
		}
	}
	return ""
}

func storedInto(f *ssa.Function, cell ssa.Value, owner *ssa.Function, seen map[ssa.Value]bool, depth int) string {
	if f == nil {
		return ""
	}
	for _, b := range f.Blocks {
		for _, in := range b.Instrs {
			if st, ok := in.(*ssa.Store); ok && st.Addr == cell {
				if r := dependsOnInnerParam(f, st.Val, owner, seen, depth+1); r != "" {
					return r
				}
			}
		}
	}
	return ""
}
