package rules

import (
	"golang.org/x/tools/go/ssa"

	"kyverif/internal/apo"
)

// NilBase (SH-NILBASE): Point.Mul(s, nil) means "multiply the standard base".
// In every Mul of a point type whose Base() is supported, a non-comma-ok type
// assertion or a method call on the raw point parameter is only reached where
// `q != nil` holds on every path (otherwise the substituted base flows in
// through a phi), and the function tests the parameter for nil at all.
func NilBase(c *Ctx, cfg string) {
	p := c.Prog(cfg)
	if p == nil {
		return
	}
	n := 0
	for _, it := range c.implTypes(p) {
		if it.Kind != "point" {
			continue
		}
		mul := p.Method(it.Named, "Mul")
		base := p.Method(it.Named, "Base")
		if mul == nil || len(mul.Blocks) == 0 || mul.Synthetic != "" || len(mul.Params) < 3 {
			continue
		}
		name := shortFn(mul)
		if base == nil || !hasReturn(base) {
			c.R.Ok("SH-NILBASE", name, "implicit generator", p.FnPos(mul), "Base() is an unsupported operation for this type: nothing to substitute", false)
			continue
		}
		n++
		q := mul.Params[2]
		a := apo.Analyze(mul, apo.AcceptSpec{})
		d := apo.NewDescriber(mul)
		qd := "isnil(" + d.Val(q) + ")"
		tested := false
		bad := ""
		var badPos ssa.Instruction
		for _, b := range mul.Blocks {
			facts := a.FactsAt(b)
			for _, in := range b.Instrs {
				if ifi, ok := in.(*ssa.If); ok {
					if cc := d.CanonCond(ifi.Cond); cc.Desc == qd {
						tested = true
					}
				}
				raw := false
				switch x := in.(type) {
				case *ssa.TypeAssert:
					raw = x.X == ssa.Value(q) && !x.CommaOk
				case *ssa.Call:
					raw = x.Call.IsInvoke() && x.Call.Value == ssa.Value(q)
				}
				if raw {
					if v, ok := facts[qd]; !ok || v {
						bad = "the raw point parameter is asserted/dereferenced where it may be nil"
						badPos = in
					}
				}
			}
		}
		switch {
		case bad != "":
			c.R.Bad("SH-NILBASE", name, "implicit generator", p.Pos(badPos.Pos()), bad+" (Mul(s, nil) must multiply the base point)")
		case !tested:
			c.R.Bad("SH-NILBASE", name, "implicit generator", p.FnPos(mul), "the point parameter is never tested for nil although Base() is supported")
		default:
			c.R.Ok("SH-NILBASE", name, "implicit generator", p.FnPos(mul), "nil tested; raw parameter only used under q != nil", true)
		}
	}
	if n < 15 {
		c.R.Fatalf("SH-NILBASE matched %d Mul methods, expected at least 15", n)
	}
}
