package rules

import (
	"encoding/json"
	"strings"
	"fmt"
	"go/constant"
	"go/types"
	"os"
	"path/filepath"
	"regexp"
	"sort"

	"golang.org/x/tools/go/ssa"

	"kyverif/internal/apo"
	"kyverif/internal/core"
	"kyverif/internal/efx"
)

// FlowSpec (SH-FLOW): in Func, every call whose callee matches Callee is
// recorded with the canonical descriptors of all its arguments, and (Ret) the
// descriptors of the returned values; the frozen set must still be present.
// This pins data flow the property names ("carries exactly the bytes of
// MarshalBinary", "reads exactly MarshalSize bytes"), keyed on resolved
// callees and parameter origins.
type FlowSpec struct {
	Func   string
	Callee string
	Ret    bool
	Cfg    string
}

type FlowTable struct {
	Func  string   `json:"func"`
	Cfg   string   `json:"cfg,omitempty"`
	Calls []string `json:"calls"`
	Rets  []string `json:"rets,omitempty"`
	Reads []string `json:"reads,omitempty"`
}

func flowPath(prop string) string {
	return filepath.Join(core.VerifDir(), "tables", "flow", prop+".json")
}

func computeFlow(c *Ctx, s FlowSpec) (*FlowTable, string, error) {
	cfg := s.Cfg
	if cfg == "" {
		cfg = "default"
	}
	p := c.Prog(cfg)
	if p == nil {
		return nil, "", fmt.Errorf("configuration %s unavailable", cfg)
	}
	fn := p.Fn(s.Func)
	if fn == nil || len(fn.Blocks) == 0 {
		return nil, "", fmt.Errorf("function %s not found", s.Func)
	}
	re, err := regexp.Compile(s.Callee)
	if err != nil {
		return nil, "", err
	}
	d := apo.NewDescriber(fn)
	d.MakeLen = true
	ft := &FlowTable{Func: s.Func, Cfg: s.Cfg}
	set := map[string]bool{}
	rets := map[string]bool{}
	// calls made inside small unexported helpers count for the caller (parameters substituted), so
	// that extracting lines into a helper does not change the recorded data flow
	var expand func(f *ssa.Function, args []string, depth int)
	expand = func(f *ssa.Function, args []string, depth int) {
		hd := apo.NewDescriber(f)
		hd.MakeLen = true
		for _, b := range f.Blocks {
			for _, in := range b.Instrs {
				ci, ok := in.(ssa.CallInstruction)
				if !ok || !re.MatchString(apo.CalleeName(ci.Common())) || messageOnly(apo.CalleeName(ci.Common())) {
					continue
				}
				set[apo.SubstParams(hd.CallDesc(ci.Common()), args)] = true // (closures: free variables stay symbolic)
				if g := ci.Common().StaticCallee(); depth < 2 && !ci.Common().IsInvoke() && apo.Inlinable(g) && g != f && g != fn {
					var as []string
					for _, a := range ci.Common().Args {
						as = append(as, apo.SubstParams(hd.Val(a), args))
					}
					expand(g, as, depth+1)
				}
			}
		}
	}
	for _, b := range fn.Blocks {
		for _, in := range b.Instrs {
			if ci, ok := in.(ssa.CallInstruction); ok && s.Callee != "" {
				if re.MatchString(apo.CalleeName(ci.Common())) && !messageOnly(apo.CalleeName(ci.Common())) {
					set[d.CallDesc(ci.Common())] = true
					if g := ci.Common().StaticCallee(); !ci.Common().IsInvoke() && apo.Inlinable(g) && g != fn {
						var as []string
						for _, a := range ci.Common().Args {
							as = append(as, d.Val(a))
						}
						expand(g, as, 1)
					}
				}
			}
			if r, ok := in.(*ssa.Return); ok && s.Ret {
				for k, v := range r.Results {
					if types.Identical(v.Type(), types.Universe.Lookup("error").Type()) {
						continue
					}
					if cst, ok := v.(*ssa.Const); ok && (cst.Value == nil || cst.Value.Kind() == constant.Int && cst.Value.String() == "0") {
						continue // zero value on error paths
					}
					rets[fmt.Sprintf("#%d=%s", k, d.Val(v))] = true
				}
			}
		}
	}
	for s := range set {
		ft.Calls = append(ft.Calls, s)
	}
	for s := range rets {
		ft.Rets = append(ft.Rets, s)
	}
	sort.Strings(ft.Calls)
	sort.Strings(ft.Rets)
	return ft, p.FnPos(fn), nil
}

func flowKey(f, cfg string) string { return f + "|" + cfg }

func GenFlow(c *Ctx, prop string, specs []FlowSpec, readsOf []string) error {
	merged := map[string]*FlowTable{}
	var order []string
	for _, s := range specs {
		ft, _, err := computeFlow(c, s)
		if err != nil {
			return err
		}
		k := flowKey(s.Func, s.Cfg)
		if m, ok := merged[k]; ok {
			m.Calls = uniq(append(m.Calls, ft.Calls...))
			m.Rets = uniq(append(m.Rets, ft.Rets...))
		} else {
			merged[k] = ft
			order = append(order, k)
		}
	}
	if len(readsOf) > 0 {
		p := c.Prog("default")
		an := efx.NewAnalyzer(p)
		for _, f := range readsOf {
			fn := p.Fn(f)
			if fn == nil {
				return fmt.Errorf("function %s not found", f)
			}
			k := flowKey(f, "")
			m, ok := merged[k]
			if !ok {
				m = &FlowTable{Func: f}
				merged[k] = m
				order = append(order, k)
			}
			m.Reads = readSet(an, fn)
		}
	}
	var out []*FlowTable
	for _, k := range order {
		out = append(out, merged[k])
	}
	b, _ := json.MarshalIndent(out, "", " ")
	os.MkdirAll(filepath.Dir(flowPath(prop)), 0o755)
	return os.WriteFile(flowPath(prop), append(b, '\n'), 0o644)
}

func uniq(ss []string) []string {
	m := map[string]bool{}
	for _, s := range ss {
		m[s] = true
	}
	var out []string
	for s := range m {
		out = append(out, s)
	}
	sort.Strings(out)
	return out
}

// readSet: regions of the parameters a function may read, cut to two
// selectors (the independent coordinates of a value).
func readSet(an *efx.Analyzer, fn *ssa.Function) []string {
	s := an.Summary(fn)
	set := map[string]bool{}
	for r := range s.Reads {
		if !efx.IsParamRoot(r.Root()) {
			continue
		}
		set[cutSel(string(r), 2)] = true
	}
	var out []string
	for k := range set {
		out = append(out, k)
	}
	sort.Strings(out)
	return out
}

func cutSel(p string, n int) string {
	cnt := 0
	for i, ch := range p {
		if ch == '.' || ch == '*' || ch == '[' {
			cnt++
			if cnt > n {
				return p[:i]
			}
		}
		if ch == '…' {
			return p[:i]
		}
	}
	return p
}

func CheckFlow(c *Ctx, prop string, specs []FlowSpec, readsOf []string) {
	b, err := os.ReadFile(flowPath(prop))
	if err != nil {
		c.R.Fatalf("flow table for %s: %v", prop, err)
		return
	}
	var tables []*FlowTable
	if err := json.Unmarshal(b, &tables); err != nil {
		c.R.Fatalf("flow table for %s: %v", prop, err)
		return
	}
	frozen := map[string]*FlowTable{}
	for _, t := range tables {
		frozen[flowKey(t.Func, t.Cfg)] = t
	}
	cur := map[string]*FlowTable{}
	pos := map[string]string{}
	for _, s := range specs {
		ft, ps, err := computeFlow(c, s)
		if err != nil {
			c.R.Unk("SH-FLOW", s.Func, "anchor", "", err.Error())
			continue
		}
		k := flowKey(s.Func, s.Cfg)
		pos[k] = ps
		if m, ok := cur[k]; ok {
			m.Calls = uniq(append(m.Calls, ft.Calls...))
			m.Rets = uniq(append(m.Rets, ft.Rets...))
		} else {
			cur[k] = ft
		}
	}
	var an *efx.Analyzer
	for _, f := range readsOf {
		p := c.Prog("default")
		if an == nil {
			an = efx.NewAnalyzer(p)
		}
		fn := p.Fn(f)
		k := flowKey(f, "")
		if fn == nil {
			c.R.Unk("EFX-READSET", f, "anchor", "", "function not found")
			continue
		}
		m, ok := cur[k]
		if !ok {
			m = &FlowTable{Func: f}
			cur[k] = m
			pos[k] = p.FnPos(fn)
		}
		m.Reads = readSet(an, fn)
	}
	var keys []string
	for k := range frozen {
		keys = append(keys, k)
	}
	sort.Strings(keys)
	for _, k := range keys {
		fz := frozen[k]
		now, ok := cur[k]
		if !ok {
			c.R.Fatalf("frozen flow entry %s has no rule instance", k)
			continue
		}
		has := func(list []string, s string) bool {
			for _, x := range list {
				if x == s || wildMatch(s, x) {
					return true
				}
			}
			return false
		}
		for _, call := range fz.Calls {
			if has(now.Calls, call) {
				c.R.Ok("SH-FLOW", fz.Func, "call "+call, pos[k], "", true)
			} else {
				c.R.Bad("SH-FLOW", fz.Func, "call "+call, pos[k], "the function no longer makes this call with these arguments (the bytes/values it carries changed)")
			}
		}
		for _, r := range fz.Rets {
			if has(now.Rets, r) {
				c.R.Ok("SH-FLOW", fz.Func, "returns "+r, pos[k], "", true)
			} else {
				c.R.Bad("SH-FLOW", fz.Func, "returns "+r, pos[k], "the function no longer returns this value")
			}
		}
		for _, r := range fz.Reads {
			if has(now.Reads, r) {
				c.R.Ok("EFX-READSET", fz.Func, "reads "+r, pos[k], "", true)
			} else {
				c.R.Bad("EFX-READSET", fz.Func, "reads "+r, pos[k], "the comparison no longer reads this coordinate of its operand")
			}
		}
	}
	for k := range cur {
		if _, ok := frozen[k]; !ok {
			c.R.Fatalf("no frozen flow table for %s; run gen-flow", k)
		}
	}
}

// FlowSpecsC03: stream wrappers and hex helpers carry exactly the bytes of
// MarshalBinary / UnmarshalBinary.
func FlowSpecsC03(c *Ctx) ([]FlowSpec, []string) {
	p := c.Prog("default")
	if p == nil {
		return nil, nil
	}
	const all = `^[^e].*|^e[^r].*|^er[^r].*` // every callee except errors.*
	var specs []FlowSpec
	var reads []string
	for _, it := range c.implTypes(p) {
		if it.Kind == "xof" {
			continue
		}
		for _, m := range []string{"MarshalTo", "UnmarshalFrom"} {
			if fn := p.Method(it.Named, m); fn != nil && len(fn.Blocks) > 0 && fn.Synthetic == "" {
				specs = append(specs, FlowSpec{Func: shortFn(fn), Callee: all})
			}
		}
		if it.Kind == "scalar" {
			// the byte layout of scalar encodings (fixed length, byte order, padding)
			for _, m := range []string{"MarshalBinary", "UnmarshalBinary", "SetBytes", "setInt", "LittleEndian", "BigEndian"} {
				if fn := p.Method(it.Named, m); fn != nil && len(fn.Blocks) > 0 && fn.Synthetic == "" {
					specs = append(specs, FlowSpec{Func: shortFn(fn), Callee: all})
				}
			}
		}
		if fn := p.Method(it.Named, "Equal"); fn != nil && len(fn.Blocks) > 0 && fn.Synthetic == "" && hasReturn(fn) {
			reads = append(reads, shortFn(fn))
		}
	}
	for _, f := range []string{"group/internal/marshalling.PointMarshalTo", "group/internal/marshalling.PointUnmarshalFrom",
		"group/internal/marshalling.ScalarMarshalTo", "group/internal/marshalling.ScalarUnmarshalFrom"} {
		specs = append(specs, FlowSpec{Func: f, Callee: all, Ret: true})
	}
	for _, f := range []string{"ReadHexPoint", "WriteHexPoint", "ReadHexScalar", "WriteHexScalar", "PointToStringHex", "StringHexToPoint",
		"ScalarToStringHex", "StringHexToScalar", "getHex"} {
		specs = append(specs, FlowSpec{Func: "util/encoding." + f, Callee: all, Ret: true})
	}
	return specs, reads
}

func FlowSpecs(c *Ctx, prop string) ([]FlowSpec, []string) {
	switch prop {
	case "C03":
		return FlowSpecsC03(c)
	case "C18", "C06":
		// suite accessors hand out the group built from the matching domain / constructor
		p := c.Prog("default")
		if p == nil {
			return nil, nil
		}
		var out []FlowSpec
		if it := p.LookupInterface(core.ModPath+"/pairing", "Suite"); it != nil {
			for _, nt := range p.Implementors(it) {
				for _, m := range []string{"G1", "G2", "GT"} {
					if fn := p.Method(nt, m); fn != nil && len(fn.Blocks) > 0 && fn.Synthetic == "" {
						out = append(out, FlowSpec{Func: shortFn(fn), Callee: `.`, Ret: true})
					}
				}
			}
		}
		return out, nil
	case "C14":
		// proof transcripts are read through the stream wrappers: exactly MarshalSize bytes, io.ReadFull
		var out []FlowSpec
		for _, f := range []string{"group/internal/marshalling.PointUnmarshalFrom", "group/internal/marshalling.ScalarUnmarshalFrom"} {
			out = append(out, FlowSpec{Func: f, Callee: `.`, Ret: true})
		}
		return out, nil
	case "C02":
		// SetBytes / setInt / byte-order helpers of the scalar types: declared byte order, full-width copies
		all, _ := FlowSpecsC03(c)
		var out []FlowSpec
		for _, s := range all {
			for _, m := range []string{").SetBytes", ").setInt", ").LittleEndian", ").BigEndian"} {
				if strings.HasSuffix(s.Func, m) {
					out = append(out, s)
				}
			}
		}
		return out, nil
	}
	return nil, nil
}

// messageOnly: calls that only build error / log text (rewording a message is not a change of data flow).
func messageOnly(callee string) bool {
	return strings.HasPrefix(callee, "fmt.") || strings.HasPrefix(callee, "errors.") || strings.HasSuffix(callee, ").Error")
}
