package rules

import (
	"fmt"
	"go/constant"
	"go/token"
	"go/types"
	"strings"

	"golang.org/x/tools/go/ssa"

	"kyverif/internal/core"
)

// SH-SHIFT: a shift of a fixed-width integer by a constant count that is not
// smaller than the operand's width always yields 0 (or the sign): the bits
// the expression was meant to move are lost. `int(b[i])<<8` assembles the high
// byte of a length field; `int(b[i]<<8)` shifts the byte itself and drops it.
// The operand width is taken from the type-checked SSA value, so the rule
// sees through conversions and named types. Expected count on the unchanged
// tree: zero; every constant shift examined is counted.
func ShiftWidth(c *Ctx, cfg string, pkgs []string) {
	p := c.Prog(cfg)
	if p == nil {
		return
	}
	sizes := types.SizesFor("gc", "amd64")
	n := 0
	for _, fn := range p.ModuleFuncs() {
		pp := core.Short(core.PkgPathOf(fn))
		ok := false
		for _, x := range pkgs {
			if pp == x || strings.HasPrefix(pp, x+"/") {
				ok = true
			}
		}
		if !ok {
			continue
		}
		for _, b := range fn.Blocks {
			for _, in := range b.Instrs {
				bo, isB := in.(*ssa.BinOp)
				if !isB || (bo.Op != token.SHL && bo.Op != token.SHR) {
					continue
				}
				k, isC := bo.Y.(*ssa.Const)
				if !isC || k.Value == nil || k.Value.Kind() != constant.Int {
					continue
				}
				bt, isBasic := bo.X.Type().Underlying().(*types.Basic)
				if !isBasic || bt.Info()&types.IsInteger == 0 {
					continue
				}
				if _, isConstX := bo.X.(*ssa.Const); isConstX {
					continue
				}
				n++
				w := sizes.Sizeof(bt) * 8
				cnt, exact := constant.Int64Val(k.Value)
				if !exact || cnt < w {
					continue
				}
				c.R.Bad("SH-SHIFT", shortFn(fn), fmt.Sprintf("%s %s %d", bt.Name(), bo.Op, cnt), p.Pos(bo.Pos()),
					fmt.Sprintf("a %d-bit operand is shifted by %d: every bit of it is shifted out (a conversion to a wider type belongs before the shift)", w, cnt))
			}
		}
	}
	c.R.Ok("SH-SHIFT", "module", fmt.Sprintf("packages %s", strings.Join(pkgs, ",")), "", fmt.Sprintf("%d constant shifts of fixed-width integers examined, none shifts its operand out", n), false)
}
