package rules

import (
	"fmt"
	"strings"

	"kyverif/internal/core"

	"kyverif/internal/efx"
)

// Registration of the properties. Each Run composes rule families; the
// per-family instance tables live next to the family.

var commonTrusted = []string{
	"go/types, go/ssa, VTA call graph from golang.org/x/tools v0.50.0",
	"frozen gate tables under /verif/tables/gates (generated from the tree, confirmed by reading)",
}

var extraRules = map[string]func(c *Ctx){}

func gateRun(prop string) func(c *Ctx) {
	return func(c *Ctx) {
		if f := extraRules[prop]; f != nil {
			defer f(c)
		}
		specs := GateSpecs(c, prop)
		if len(specs) == 0 {
			c.R.Fatalf("no gate rule instances for %s", prop)
			return
		}
		CheckGates(c, prop, specs)
	}
}

const gateRuleText = "APO-GATE: for every frozen check (canonical condition built from resolved callees, parameter indices, field names, constants) of each listed verifier/decoder/recovery function, under the assumption that the check fails every time it is evaluated no accept outcome (return of nil error / true, or designated state mutation) is reachable in the SSA control-flow graph (3-valued evaluation of values derived from the check through !, ==nil, phi); the check lies on every accepting path where it did (dominance); APO-DEP: the checked value still depends (over-approximate data dependence with in-module summaries) on every parameter/field it depended on. An obligation is non-trivial when a branch, phi or return had to be evaluated for it."

func init() {
	for _, id := range []string{"C02", "C04", "C06", "C19", "C07", "C08", "C09", "C10", "C11", "C12", "C13", "C14", "C15", "C16", "C17"} {
		id := id
		Register(&Property{ID: id, RuleText: gateRuleText, Trusted: commonTrusted, Run: gateRun(id),
			Explanation: "structural accept-path clauses only (level other); see DESIGN.md"})
	}
}

func init() {
	Register(&Property{ID: "C05", Trusted: commonTrusted, RuleText: "EFX-OPI / SH-RET / EFX-INDEP / EFX-ALIAS", Explanation: "value semantics (effects)", Run: func(c *Ctx) {
		cfgs := []string{"default", "ct"}
		if c.Tier == "thorough" {
			cfgs = append(cfgs, "generic")
		}
		for _, cfg := range cfgs {
			p := c.Prog(cfg)
			if p == nil {
				continue
			}
			an := efx.NewAnalyzer(p)
			cfgTag(c, cfg, func() {
				EFXValueSemantics(c, cfg, an)
				EFXAlias(c, cfg, an)
				EFXPolicy(c, cfg, an)
			})
			c.R.Extra["efx_stats_"+cfg] = an.Stats
			if cfg != "default" {
				c.Drop(cfg)
			}
		}
		// "the receiver is set": every mutator and arithmetic routine assigns its whole output on every
		// returning path (a shortcut that returns the receiver untouched leaves the previous value in it)
		CheckMustWrite(c, "C01")
	}})
	Register(&Property{ID: "C20", Trusted: commonTrusted, RuleText: "EFX-RO", Explanation: "read-only (effects)", Run: func(c *Ctx) {
		cfgs := []string{"default", "ct"}
		if c.Tier == "thorough" {
			cfgs = append(cfgs, "generic")
		}
		for _, cfg := range cfgs {
			p := c.Prog(cfg)
			if p == nil {
				continue
			}
			an := efx.NewAnalyzer(p)
			cfgTag(c, cfg, func() {
				EFXReadOnlyTypes(c, cfg, an)
				EFXReadOnlyTargets(c, cfg, an)
				EFXGlobals(c, cfg, an)
				EFXPolicy(c, cfg, an)
			})
			c.R.Extra["efx_stats_"+cfg] = an.Stats
			if cfg != "default" {
				c.Drop(cfg)
			}
		}
	}})
}

func entropyRule(prop string) func(c *Ctx) {
	return func(c *Ctx) {
		if p := c.Prog("default"); p != nil {
			EntropyFree(c, "default", entropyTargets(c, p, prop))
		}
	}
}

func both(fs ...func(c *Ctx)) func(c *Ctx) {
	return func(c *Ctx) {
		for _, f := range fs {
			f(c)
		}
	}
}

// shuffle verifiers / sequence reduction do not write the ciphertext lists they are given
func roTargetsForShuffle(c *Ctx) {
	p := c.Prog("default")
	if p == nil {
		return
	}
	an := efx.NewAnalyzer(p)
	for _, n := range []string{"shuffle.GetSequenceVerifiable", "shuffle.Verifier", "shuffle.BiffleVerifier", "shuffle.Shuffle", "shuffle.SequencesShuffle", "shuffle.Biffle"} {
		if fn := p.Fn(n); fn != nil && len(fn.Blocks) > 0 {
			roCheck(c, p, an, fn, "EFX-RO", nil)
		}
	}
}

func fresh(pre ...string) func(c *Ctx) { return func(c *Ctx) { CheckFreshRet(c, pre) } }
func ptreq(pk ...string) func(c *Ctx) { return func(c *Ctx) { PointerEquality(c, "default", pk) } }

func appendRule(pk ...string) func(c *Ctx) { return func(c *Ctx) { AppendClobber(c, "default", pk) } }

func nilEmpty(pk ...string) func(c *Ctx) { return func(c *Ctx) { NilEmpty(c, "default", pk) } }

func lazyCap(pk ...string) func(c *Ctx) { return func(c *Ctx) { LazyCapture(c, "default", pk) } }

func shiftRule(pk ...string) func(c *Ctx) { return func(c *Ctx) { ShiftWidth(c, "default", pk) } }

func loopShare(pk ...string) func(c *Ctx) { return func(c *Ctx) { LoopShare(c, "default", pk) } }

func init() {
	stale := func(pk ...string) func(c *Ctx) { return func(c *Ctx) { StaleResults(c, "default", pk) } }
	extraRules["C15"] = both(nilEmpty("shuffle", "proof"), lazyCap("shuffle", "proof"), appendRule("shuffle", "proof"), stale("shuffle", "proof"), loopShare("shuffle"), func(c *Ctx) { CheckMustWrite(c, "C15") }, fresh("shuffle."), roTargetsForShuffle)
	roTargetsFor := func(names ...string) func(c *Ctx) {
		return func(c *Ctx) {
			p := c.Prog("default")
			if p == nil {
				return
			}
			an := efx.NewAnalyzer(p)
			for _, t := range roTargetList(c, p) {
				for _, n := range names {
					if strings.Contains(t.Func, n) {
						if fn := p.Fn(t.Func); fn != nil && len(fn.Blocks) > 0 {
							allow := map[int]bool{}
							for _, i := range t.Allow {
								allow[i] = true
							}
							roCheckP(c, p, an, fn, "EFX-RO", allow, t.AllowPaths)
						}
					}
				}
			}
		}
	}
	flowOf := func(prop string) func(c *Ctx) {
		return func(c *Ctx) {
			specs, reads := FlowSpecs(c, prop)
			CheckFlow(c, prop, specs, reads)
		}
	}
	extraRules["C14"] = both(nilEmpty("proof"), lazyCap("proof"), appendRule("proof"), stale("proof"), loopShare("proof"), flowOf("C14"), func(c *Ctx) { CheckMustWrite(c, "C14") })
	extraRules["C13"] = both(nilEmpty("share/pvss", "proof/dleq"), lazyCap("share/pvss", "proof/dleq"), appendRule("share/pvss", "proof/dleq", "share"), func(c *Ctx) { CheckMustWrite(c, "C13") }, stale("share/pvss", "proof/dleq"), roTargetsFor("share/pvss.", "proof/dleq."), loopShare("share/pvss", "proof/dleq"),
		func(c *Ctx) { AccGate(c, "default", "C13") })
	extraRules["C06"] = both(roTargetsFor(").Pair", ").ValidatePairing"), func(c *Ctx) { SiblingSkeletonCheck(c, "default") }, flowOf("C06"))
	extraRules["__ro_c08"] = roTargetsFor("sign/eddsa.", "sign/schnorr.", "sign/anon.Verify", "sign/anon.Sign")
	// ciphertexts, keys and messages are inputs only: a decryptor that writes into its ciphertext can
	// make its own integrity comparison vacuous (anon header) or break a second decryption
	extraRules["C16"] = both(nilEmpty("encrypt", "sign/anon", "util/key"), shiftRule("encrypt", "sign/anon"), appendRule("encrypt", "sign/anon", "util/key"), roTargetsFor("encrypt/ecies.", "encrypt/ibe.", "sign/anon.Encrypt", "sign/anon.Decrypt"),
		func(c *Ctx) { LenGuard(c, "default", []string{"encrypt", "sign/anon"}) }, fresh("encrypt/", "sign/anon."))
	extraRules["C08"] = both(nilEmpty("sign/schnorr", "sign/eddsa", "sign/anon"), appendRule("sign/schnorr", "sign/eddsa", "sign/anon"), func(c *Ctx) { CheckMustWrite(c, "C08") }, stale("sign/schnorr", "sign/eddsa", "sign/anon"), entropyRule("C08"),
		func(c *Ctx) { extraRules["__ro_c08"](c) }, fresh("sign/eddsa.", "sign/schnorr.", "sign/anon."), ptreq("sign/eddsa", "sign/schnorr", "sign/anon"))
	extraRules["__fresh_c03"] = fresh("MarshalBinary", "Clone", ".Data", ".String", "util/encoding.")
	extraRules["C02"] = both(func(c *Ctx) { CheckMustWrite(c, "C02") }, shiftRule("group/edwards25519", "group/mod", "compatible", "pairing/bls12381", "util/random"), entropyRule("C02"), func(c *Ctx) { ScalarModulus(c, "default") }, func(c *Ctx) {
		specs, reads := FlowSpecs(c, "C02")
		CheckFlow(c, "C02", specs, reads)
	}, func(c *Ctx) {
		for _, cfg := range []string{"default", "ct"} {
			cfgTag(c, cfg, func() { ReduceDiscipline(c, cfg) })
			// "exactly the corresponding operation" also when the receiver is one of the operands
			// (x.Sub(a, x) in the constant-time build): the aliasing scenarios of the scalar types
			if p := c.Prog(cfg); p != nil {
				cfgTag(c, cfg, func() { EFXAliasKinds(c, cfg, efx.NewAnalyzer(p), "scalar") })
			}
		}
	})
	extraRules["C17"] = both(nilEmpty("group", "pairing"), entropyRule("C17"), shiftRule("group", "pairing"))
	extraRules["C19"] = both(lazyCap("xof", "util/random"), nilEmpty("xof", "util/random"), shiftRule("xof", "util/random"), appendRule("xof", "util/random"), entropyRule("C19"), func(c *Ctx) { CheckMustWrite(c, "C19") }, func(c *Ctx) {
		// XOF clones share no mutable state with their original (EFX-INDEP) and Clone writes nothing
		p := c.Prog("default")
		if p == nil {
			return
		}
		an := efx.NewAnalyzer(p)
		for _, it := range c.implTypes(p) {
			if it.Kind != "xof" {
				continue
			}
			if fn := p.Method(it.Named, "Clone"); fn != nil && len(fn.Blocks) > 0 {
				s := an.Summary(fn)
				indep(c, p, it.Named, shortFn(fn), p.FnPos(fn), s, "R0")
				roCheck(c, p, an, fn, "EFX-RO", nil)
			}
			// the constructor keeps no reference into the caller's seed buffer
			ctor := p.Fn(core.Short(it.Named.Obj().Pkg().Path()) + ".New")
			if ctor != nil && len(ctor.Blocks) > 0 {
				s := an.Summary(ctor)
				indep(c, p, it.Named, shortFn(ctor), p.FnPos(ctor), s, "R0")
			}
			for _, m := range []string{"Write", "Reseed"} {
				if fn := p.Method(it.Named, m); fn != nil && len(fn.Blocks) > 0 {
					// the absorbed bytes are only read
					s := an.Summary(fn)
					bad := writesOutside(fn, s, func(i int) bool { return i == 0 })
					if len(bad) > 0 {
						c.R.Bad("EFX-OPI", shortFn(fn), "operands", p.FnPos(fn), "may write memory other than its receiver: "+describeWrites(p, s, bad))
					} else {
						c.R.Ok("EFX-OPI", shortFn(fn), "operands", p.FnPos(fn), "", true)
					}
				}
			}
		}
	})
	extraRules["C09"] = func(c *Ctx) {
		stale("sign/bls", "sign/tbls", "sign/bdn", "sign/cosi")(c)
		appendRule("sign/bls", "sign/tbls", "sign/bdn", "sign/cosi", "share")(c)
		nilEmpty("sign/bls", "sign/tbls", "sign/bdn", "sign/cosi")(c)
		lazyCap("sign/bls", "sign/tbls", "sign/bdn", "sign/cosi")(c)
		PairedUpdates(c, "default")
		CheckMustWrite(c, "C09")
		AccGate(c, "default", "C09")
		LenGuard(c, "default", []string{"sign/bls", "sign/tbls", "sign/bdn", "sign/cosi"})
		fresh("sign/bls.", "sign/tbls.", "sign/bdn.", "sign/cosi.")(c)
		ptreq("sign/bls", "sign/tbls", "sign/bdn", "sign/cosi")(c)
	}
	extraRules["C07"] = both(nilEmpty("share"), appendRule("share"), func(c *Ctx) { CheckMustWrite(c, "C07") }, stale("share"), fresh("share.", "(*share."), ptreq("share"))
	extraRules["C04"] = func(c *Ctx) {
		CheckMustWrite(c, "C04")
		if p := c.Prog("default"); p != nil {
			decodersReadOnly(c, p, efx.NewAnalyzer(p))
		}
		ShiftWidth(c, "default", []string{"group", "pairing", "internal", "util/encoding", "compatible"})
		ErrDrop(c, "default", []string{"group", "pairing", "sign", "share", "proof", "shuffle", "encrypt", "internal", "util/encoding"})
		LenGuard(c, "default", []string{"group", "pairing", "sign", "share", "proof", "shuffle", "encrypt", "internal", "util/encoding"})
	}
	extraRules["C10"] = func(c *Ctx) {
		WriterDiscipline(c, "default", "C10")
		CheckMustWrite(c, "C10")
		LoopShare(c, "default", []string{"share/vss/pedersen", "share/vss/rabin"})
		appendRule("share/vss", "internal")(c)
		lazyCap("share/vss")(c)
		nilEmpty("share/vss")(c)
		fresh("share/vss/")(c)
	}
	extraRules["C11"] = func(c *Ctx) {
		WriterDiscipline(c, "default", "C11")
		CheckMustWrite(c, "C11")
		LoopShare(c, "default", []string{"share/dkg/pedersen", "share/dkg/rabin"})
		appendRule("share/dkg", "share/vss/rabin")(c)
		lazyCap("share/dkg")(c)
		nilEmpty("share/dkg")(c)
	}
	extraRules["C12"] = func(c *Ctx) { appendRule("sign/dss")(c); nilEmpty("sign/dss")(c); lazyCap("sign/dss")(c); WriterDiscipline(c, "default", "C12"); CheckMustWrite(c, "C12"); AccGate(c, "default", "C12") }
}

// decodersReadOnly: decoding never changes the bytes decoded (a decoder that reverses or masks its
// input in place hands a different encoding back to its caller: re-encoding no longer matches the
// buffer, a second decode of the same buffer gives another value)
func decodersReadOnly(c *Ctx, p *core.Prog, an *efx.Analyzer) {
	for _, it := range c.implTypes(p) {
		if it.Kind == "xof" {
			continue
		}
		for _, m := range []string{"UnmarshalBinary", "SetBytes", "Embed", "Hash"} {
			if fn := p.Method(it.Named, m); fn != nil && len(fn.Blocks) > 0 && fn.Synthetic == "" {
				roCheck(c, p, an, fn, "EFX-RO", map[int]bool{0: true})
			}
		}
	}
}

func init() {
	Register(&Property{ID: "C03", Trusted: commonTrusted, RuleText: "SH-FLOW / EFX-READSET / EFX-RO / SH-LEN", Explanation: "encodings (structure)", Run: func(c *Ctx) {
		p := c.Prog("default")
		if p == nil {
			return
		}
		specs, reads := FlowSpecs(c, "C03")
		CheckFlow(c, "C03", specs, reads)
		an := efx.NewAnalyzer(p)
		// encoding never changes the value encoded
		for _, it := range c.implTypes(p) {
			if it.Kind == "xof" {
				continue
			}
			for _, m := range []string{"MarshalBinary", "MarshalTo", "MarshalSize", "String", "Equal"} {
				if fn := p.Method(it.Named, m); fn != nil && len(fn.Blocks) > 0 && fn.Synthetic == "" {
					roCheck(c, p, an, fn, "EFX-RO", nil)
				}
			}
		}
		decodersReadOnly(c, p, an)
		SizeTables(c, "default")
		ShiftWidth(c, "default", []string{"group", "pairing", "util/encoding", "compatible"})
		extraRules["__fresh_c03"](c)
	}})
}

func init() {
	Register(&Property{ID: "C01", Trusted: commonTrusted, RuleText: "SH-NILBASE", Explanation: "group laws (structure)", Run: func(c *Ctx) {
		NilBase(c, "default")
		CheckMustWrite(c, "C01")
		SiblingAgreement(c, "default")
		SiblingSkeletonCheck(c, "default")
		if p := c.Prog("default"); p != nil {
			an := efx.NewAnalyzer(p)
			EFXGlobals(c, "default", an)
			// the generator / identity a group hands out must not be reachable for writing through a
			// point that was set from it (Base/Null sharing storage with the group descriptor)
			EFXValueSemantics(c, "default", an)
			// the identities are stated for every operand, also when operands coincide with each other or with
			// the receiver (P - P = O computed as p.Sub(p, p)): the aliasing scenarios of C05 are obligations here too
			EFXAlias(c, "default", an)
		}
	}})
}

// tierConfigs: build configurations analysed per tier.
func tierConfigs(c *Ctx) []string {
	if c.Tier == "thorough" {
		return []string{"default", "ct", "generic"}
	}
	return []string{"default"}
}

func init() {
	Register(&Property{ID: "C18", Trusted: commonTrusted, RuleText: "SH-SIBCONST / SH-CONFIG / EFX per configuration", Explanation: "implementations agree (structure)", Run: func(c *Ctx) {
		SiblingConstants(c, "default")
		SiblingSkeletonCheck(c, "default")
		{
			specs, reads := FlowSpecs(c, "C18")
			CheckFlow(c, "C18", specs, reads)
		}
		// the three scalar-multiplication algorithms / build variants must each assign their whole output on every path
		CheckMustWrite(c, "C01")
		cfgs := []string{"default", "ct", "generic"}
		if c.Tier == "thorough" {
			cfgs = append(cfgs, "purego", "arm64")
		}
		for _, cfg := range cfgs {
			p := c.Prog(cfg)
			if p == nil {
				c.R.Bad("SH-CONFIG", "build", cfg, "", "configuration does not type-check")
				continue
			}
			c.R.Ok("SH-CONFIG", "build", cfg, "", fmt.Sprintf("%d packages", len(p.Pkgs)), true)
			if cfg == "purego" || cfg == "arm64" {
				c.Drop(cfg)
				continue
			}
			// every build variant of every implementation individually has value semantics:
			// aliasing or operand mutation cannot make variants diverge on the same program
			an := efx.NewAnalyzer(p)
			cfgTag(c, cfg, func() {
				EFXValueSemantics(c, cfg, an)
				EFXAlias(c, cfg, an)
			})
			if cfg != "default" {
				c.Drop(cfg)
			}
		}
	}})
}

// cfgTag marks the obligations added by f with the configuration.
func cfgTag(c *Ctx, cfg string, f func()) {
	n := len(c.R.Obls)
	f()
	for _, o := range c.R.Obls[n:] {
		if o.Config == "" {
			o.Config = cfg
		}
	}
}
