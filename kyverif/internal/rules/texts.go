package rules

// Per-property explanation and not-decided lists reproduced in every
// evidence file (DESIGN.md §4).
var propText = map[string]struct {
	Explanation string
	NotDecided  []string
}{
	"C01": {"Static structural clauses of the group laws: Mul(s,nil) substitutes the base point in every point type (SH-NILBASE) and every arithmetic routine assigns each part of its output on every returning path (MUST-WRITE). Decided from the SSA form of the current tree for all inputs; the identities themselves are numeric and not decided.",
		[]string{"identity, inverses, commutativity, associativity, distributivity, a(bP)=(ab)P, 0*P=O, (q-1)P=-P for any operand", "which internal evaluation path computes the right value"}},
	"C02": {"Static structural clauses of scalar arithmetic: rejection-sampling and range/length gates fail closed in the default and constant-time builds (APO-GATE/BOUND), scalar Pick/SetBytes/arithmetic reach no entropy but their stream (DET-ENT).",
		[]string{"that Add/Sub/Mul/Div/Inv/SetBytes compute the right residue", "byte-order numerics", "canonical form of every result"}},
	"C03": {"Static structural clauses of encodings: stream wrappers and hex helpers carry exactly the bytes of own MarshalBinary/UnmarshalBinary (SH-FLOW), encoding and comparison write nothing (EFX-RO), Equal reads every coordinate of both operands (EFX-READSET), advertised lengths equal MarshalSize where constant (SH-LEN).",
		[]string{"decode(encode(x)) == x", "re-encoding byte identity", "Equal iff encodings identical"}},
	"C04": {"Static structural clauses of decoding untrusted bytes: every accepting path of every decoder / composite parser passes its length gate and validator (APO-GATE/BOUND), byte-slice parameters are indexed only under a length fact (APO-LENGUARD), decode-class errors are never dropped (APO-ERRDROP), decoders assign every coordinate on accepting paths (MUST-WRITE).",
		[]string{"arithmetic sufficiency of a guard", "that later operations on an accepted value never panic", "decode(encode(p)) == p"}},
	"C05": {"Value semantics decided for every aliasing pattern at once by an interprocedural effect/alias analysis: operands never written (EFX-OPI), receiver returned and written (SH-RET), no shared mutable storage after any mutator / Set / Clone (EFX-INDEP), no operand data read after the receiver is written when they are the same object (EFX-ALIAS), in the default and constant-time builds (thorough: generic too).",
		[]string{"numeric equality of aliased and unaliased results beyond the reads-before-writes argument", "alias safety inside body-less assembly leaves and math/big (assumed, listed)"}},
	"C06": {"Static structural clauses of pairings: ValidatePairing/Pair accept-path structure, identity operands pass SetOne on every path in the BN optimalAte (must-pass-through), pairing evaluation writes none of its operands (EFX-RO).",
		[]string{"bilinearity", "non-degeneracy", "additivity", "ValidatePairing == (Pair == Pair) numerically"}},
	"C07": {"Static structural clauses of Shamir sharing: recovery refuses fewer than t usable shares on every accepting path, Check's verdict is the commitment equation and depends on index, value and base (APO-GATE/DEP/BOUND).",
		[]string{"Lagrange interpolation correctness", "independence of subset/order", "polynomial Add/Mul commute with evaluation"}},
	"C08": {"Static structural clauses of Schnorr/EdDSA/ring signatures: every verification check fails closed on every accepting path and depends on message, key and signature; canonicity predicates keep their comparisons; signing/verification reach no hidden entropy.",
		[]string{"completeness (honest signatures verify)", "byte equality with crypto/ed25519", "distinctness of linkage tags"}},
	"C09": {"Static structural clauses of BLS/TBLS/BDN/CoSi: accept-path gates, partial signatures enter recovery only after verification (sink gates, ACC-GATE), constructors initialise every table on every successful path (SH-CTOR), mask-bit flips are paired with aggregate-key updates (SH-PAIRUPD).",
		[]string{"uniqueness and validity of the recovered signature", "aggregate-key algebra"}},
	"C10": {"Static structural clauses of VSS: deal/response/justification gates, state written only behind its checks (sinks), badDealer/timeout only ever set to true and responses never deleted (SH-WRITERS), certification predicate gates.",
		[]string{"certified deals are recoverable", "behaviour over all response/justification histories beyond monotonicity of the state"}},
	"C11": {"Static structural clauses of the DKGs: shares stored, packets pushed and results built only behind all checks (sink gates), evictions append-only (SH-WRITERS), recovery errors gate the result and are never dropped.",
		[]string{"agreement of honest parties on key, QUAL and shares for every fault set and delivery order (history property)"}},
	"C12": {"Static structural clauses of DSS: a partial is stored only after index, authenticity, session, duplicate and equation checks (sink gates, ACC-GATE), own partial is recorded, no signature below t, partial set append-only (SH-WRITERS).",
		[]string{"the Lagrange combination is a valid EdDSA/Schnorr signature", "all participants derive the same signature"}},
	"C13": {"Static structural clauses of PVSS/DLEQ: accept-path gates, batch filters keep only verified shares (sink gates, ACC-GATE), verification functions write none of their inputs (EFX-RO), threshold gate.",
		[]string{"recovery algebra", "that honest shares verify (completeness)"}},
	"C14": {"Static structural clauses of sigma-protocol proofs: verifiers enforce commit equation, sub-challenge sum and every sub-verifier; transcript handling gates; no response object shared between variables (EFX-LOOPSHARE).",
		[]string{"completeness", "soundness", "zero-knowledge"}},
	"C15": {"Static structural clauses of the shuffles: every equation and transcript read of the verifiers is enforced on the accepting path; no stale scratch value is compared (EFX-STALE).",
		[]string{"soundness against forged transcripts", "completeness"}},
	"C16": {"Static structural clauses of encryption: decrypt accept-path gates (lengths, decode, AEAD/MAC/FO check), pad never shorter than the message, bounds unchanged.",
		[]string{"confidentiality (IND-CPA/CCA)", "exact round trip"}},
	"C17": {"Static structural clauses of Pick/Embed/hash-to-group: curve/subgroup tests and length-byte range checks gate the results; Pick/Embed/Hash reach no entropy but their stream/message (DET-ENT).",
		[]string{"q*P = O numerically", "Embed/Data layout equality", "RFC 9380 vectors"}},
	"C18": {"Static structural clauses of implementation agreement: BLS back-end constants agree (SH-SIBCONST), every build configuration type-checks (SH-CONFIG) and in each of default/constantTime/generic every implementation has value semantics under aliasing and assigns its whole output.",
		[]string{"bit-for-bit agreement of encodings, hashes, pairings, signatures across implementations and builds"}},
	"C19": {"Static structural clauses of XOFs/random streams: XORKeyStream length gates and key-stream source, XOF methods assign their state on every path (MUST-WRITE), Clone shares no mutable state (EFX-INDEP), no hidden entropy (DET-ENT), random.Int rejection structure.",
		[]string{"chunk independence", "clone equivalence of outputs", "Reset/Reseed semantics", "absence of modulo bias numerically"}},
	"C20": {"Race freedom of shared read-only use decided for all schedules by an interprocedural mod/ref analysis: no read-only method, suite accessor, pairing evaluation, verifier, polynomial/mask reader or the stateless random stream writes memory reachable from a shared value, in the default and constant-time builds.",
		[]string{"equality with sequential results for random streams", "races inside user-supplied readers/streams"}},
}
