package rules

import (
	"fmt"
	"go/types"
	"sort"
	"strings"

	"golang.org/x/tools/go/ssa"

	"kyverif/internal/core"
	"kyverif/internal/efx"
)

var pointMutators = []string{"Null", "Base", "Pick", "Set", "Embed", "Add", "Sub", "Neg", "Mul", "UnmarshalBinary", "UnmarshalFrom", "Hash"}
var scalarMutators = []string{"Set", "SetInt64", "Zero", "One", "Add", "Sub", "Neg", "Mul", "Div", "Inv", "Pick", "SetBytes", "UnmarshalBinary", "UnmarshalFrom"}
var readOnlyMethods = []string{"Equal", "Clone", "Data", "String", "MarshalBinary", "MarshalTo", "MarshalSize", "EmbedLen",
	"IsCanonical", "HasSmallOrder", "IsInCorrectGroup", "ByteOrder", "GroupOrder", "MarshalID"}

type implType struct {
	Named *types.Named
	Kind  string // point | scalar | xof
}

func (c *Ctx) implTypes(p *core.Prog) []implType {
	var out []implType
	add := func(pkg, iface, kind string) {
		it := p.LookupInterface(pkg, iface)
		if it == nil {
			c.R.Fatalf("interface %s.%s not found", pkg, iface)
			return
		}
		for _, nt := range p.Implementors(it) {
			out = append(out, implType{nt, kind})
		}
	}
	add(core.ModPath, "Point", "point")
	add(core.ModPath, "Scalar", "scalar")
	add(core.ModPath, "XOF", "xof")
	return out
}

// isStreamParam: parameters through which a method is allowed to write
// (random streams, readers, writers).
func isStreamParam(t types.Type) bool {
	it, ok := t.Underlying().(*types.Interface)
	if !ok {
		return false
	}
	for i := 0; i < it.NumMethods(); i++ {
		switch it.Method(i).Name() {
		case "XORKeyStream", "Read", "Write":
			return true
		}
	}
	return false
}

func paramIndexOfRoot(root string) int {
	var i int
	if n, _ := fmt.Sscanf(root, "P%d", &i); n == 1 {
		return i
	}
	return -1
}

func hasReturn(fn *ssa.Function) bool {
	for _, b := range fn.Blocks {
		for _, in := range b.Instrs {
			if _, ok := in.(*ssa.Return); ok {
				return true
			}
		}
	}
	return false
}

// writesOutside lists writes of the summary outside the allowed parameter
// roots (globals included).
func writesOutside(fn *ssa.Function, s *efx.Summary, allowed func(i int) bool) []efx.Path {
	var bad []efx.Path
	for w := range s.Writes {
		r := w.Root()
		if efx.IsGlobalRoot(r) {
			bad = append(bad, w)
			continue
		}
		i := paramIndexOfRoot(r)
		if i < 0 || allowed(i) {
			continue
		}
		if i < len(fn.Params) && isStreamParam(fn.Params[i].Type()) {
			continue
		}
		bad = append(bad, w)
	}
	sort.Slice(bad, func(i, j int) bool { return bad[i] < bad[j] })
	return bad
}

func describeWrites(p *core.Prog, s *efx.Summary, ws []efx.Path) string {
	var parts []string
	for i, w := range ws {
		if i >= 4 {
			parts = append(parts, fmt.Sprintf("… %d more", len(ws)-4))
			break
		}
		parts = append(parts, fmt.Sprintf("%s (%s at %s)", w, s.WriteWhy[w], p.Pos(s.WritePos[w])))
	}
	return strings.Join(parts, "; ")
}

func shortFn(fn *ssa.Function) string { return core.Short(fn.String()) }

// EFXValueSemantics: EFX-OPI (operands intact), SH-RET (receiver returned and
// written), EFX-INDEP (Set / Clone share no mutable storage) over every
// mutator of every point and scalar implementation.
func EFXValueSemantics(c *Ctx, cfg string, an *efx.Analyzer) {
	p := c.Prog(cfg)
	if p == nil {
		return
	}
	for _, it := range c.implTypes(p) {
		if it.Kind == "xof" {
			continue
		}
		muts := pointMutators
		if it.Kind == "scalar" {
			muts = scalarMutators
		}
		for _, m := range muts {
			fn := p.Method(it.Named, m)
			if fn == nil || len(fn.Blocks) == 0 || fn.Synthetic != "" && !strings.Contains(fn.Synthetic, "wrapper") {
				continue
			}
			if fn.Synthetic != "" {
				continue // promoted through embedding: checked on the declaring type
			}
			name := shortFn(fn)
			pos := p.FnPos(fn)
			if !hasReturn(fn) {
				c.R.Ok("EFX-OPI", name, "unsupported operation (no return: unconditional panic)", pos, "", false)
				continue
			}
			s := an.Summary(fn)
			c.R.CallSites += countCalls(fn)
			if len(s.Unknown) > 0 {
				c.R.Unk("EFX-OPI", name, "operands", pos, "effects not fully resolved: "+s.Unknown[0])
				continue
			}
			bad := writesOutside(fn, s, func(i int) bool { return i == 0 })
			if len(bad) > 0 {
				c.R.Bad("EFX-OPI", name, "operands", pos, "may write memory other than its receiver: "+describeWrites(p, s, bad))
			} else {
				c.R.Ok("EFX-OPI", name, "operands", pos, fmt.Sprintf("writes %d receiver regions, no operand/global region", len(s.Writes)), true)
			}
			// SH-RET: result is the receiver
			res := fn.Signature.Results()
			// Hash (HashablePoint) is not part of the mutator contract: bn254 returns a fresh point
			if m != "Hash" && res.Len() >= 1 && !isErr(res.At(0).Type()) && isRefResult(res.At(0).Type()) {
				ok := len(s.Ret[0]) > 0
				for r := range s.Ret[0] {
					if r != "P0" {
						ok = false
					}
				}
				if !ok {
					c.R.Bad("SH-RET", name, "returns receiver", pos, fmt.Sprintf("may return %v instead of exactly its receiver", s.Ret[0].Sorted()))
				} else {
					wrote := false
					for w := range s.Writes {
						if w.Root() == "P0" {
							wrote = true
						}
					}
					if !wrote {
						c.R.Bad("SH-RET", name, "returns receiver", pos, "returns its receiver but never stores into it")
					} else {
						c.R.Ok("SH-RET", name, "returns receiver", pos, "", true)
					}
				}
			}
			// after ANY mutator the receiver must not hold references into operand or global storage
			indep(c, p, it.Named, name, pos, s, "P0")
		}
		if fn := p.Method(it.Named, "Clone"); fn != nil && len(fn.Blocks) > 0 && fn.Synthetic == "" && hasReturn(fn) {
			s := an.Summary(fn)
			name := shortFn(fn)
			pos := p.FnPos(fn)
			fresh := len(s.Ret[0]) > 0
			for r := range s.Ret[0] {
				if r.Root() != "R0" {
					fresh = false
				}
			}
			if !fresh {
				c.R.Bad("EFX-INDEP", name, "result is fresh", pos, fmt.Sprintf("Clone may return %v (not a fresh object)", s.Ret[0].Sorted()))
			} else {
				c.R.Ok("EFX-INDEP", name, "result is fresh", pos, "", true)
			}
			indep(c, p, it.Named, name, pos, s, "R0")
		}
	}
}

func isErr(t types.Type) bool { return types.Identical(t, types.Universe.Lookup("error").Type()) }
func isRefResult(t types.Type) bool {
	switch t.Underlying().(type) {
	case *types.Pointer, *types.Interface:
		return true
	}
	return false
}

// immutablePolicy: referents that Set/Clone may share because nothing mutates
// them after construction (group descriptors, moduli, DST tags). One line of
// reason each; the who-may-write side is checked by EFX-OPI/RO of all methods.
var immutablePolicy = []struct{ typeSuffix, reason string }{
	{"*group/p256.ResidueGroup", "group descriptor, set once by SetParams/QuadraticResidueGroup"},
	{"*group/p256.curve", "curve descriptor"},
	{"*group/edwards25519vartime.ProjectiveCurve", "curve descriptor"},
	{"*group/edwards25519vartime.ExtendedCurve", "curve descriptor"},
	{"*group/edwards25519vartime.BasicCurve", "curve descriptor"},
	{"*group/edwards25519vartime.curve", "curve descriptor"},
	{"*compatible/compatiblemod.Mod", "modulus: 'assumed never to change' (mod.Int doc)"},
	{"[]byte", "domain-separation tag of a BLS12-381 point (dst), never written after construction"},
	{"kyber.Point", "embedded nil interface of the Kilic adapters (never assigned)"},
	{"kyber.HashablePoint", "embedded nil interface of the Kilic adapters (never assigned)"},
}

// typeAt walks the selectors of a path through a type.
func typeAt(t types.Type, sel string) types.Type {
	for len(sel) > 0 && t != nil {
		switch {
		case strings.HasPrefix(sel, "…"):
			return t
		case sel[0] == '*':
			sel = sel[1:]
			switch u := t.Underlying().(type) {
			case *types.Pointer:
				t = u.Elem()
			case *types.Slice:
				t = u // pointee of a slice value is its backing array: keep slice type
			default:
				return t
			}
		case sel[0] == '[':
			sel = sel[2:]
			switch u := t.Underlying().(type) {
			case *types.Slice:
				t = u.Elem()
			case *types.Array:
				t = u.Elem()
			case *types.Map:
				t = u.Elem()
			case *types.Pointer:
				if a, ok := u.Elem().Underlying().(*types.Array); ok {
					t = a.Elem()
				} else {
					return nil
				}
			default:
				return nil
			}
		case sel[0] == '.':
			j := 1
			for j < len(sel) && sel[j] != '.' && sel[j] != '*' && sel[j] != '[' && !strings.HasPrefix(sel[j:], "…") {
				j++
			}
			name := sel[1:j]
			sel = sel[j:]
			if pt, ok := t.Underlying().(*types.Pointer); ok {
				t = pt.Elem()
			}
			st, ok := t.Underlying().(*types.Struct)
			if !ok {
				return nil
			}
			var ft types.Type
			for i := 0; i < st.NumFields(); i++ {
				if st.Field(i).Name() == name {
					ft = st.Field(i).Type()
				}
			}
			t = ft
		default:
			return nil
		}
	}
	return t
}

func policyReason(t types.Type) string {
	if t == nil {
		return ""
	}
	ts := core.Short(types.TypeString(t, nil))
	for _, pol := range immutablePolicy {
		if ts == pol.typeSuffix {
			return pol.reason
		}
	}
	return ""
}

// indep: no region under root `root` (P0 after Set, R0 for Clone's result)
// may hold a reference to storage reachable from another parameter / the
// receiver / a global, unless the referent is immutable by policy.
func indep(c *Ctx, p *core.Prog, nt *types.Named, name, pos string, s *efx.Summary, root string) {
	var bad []string
	n := 0
	for tgt, srcs := range s.RefStores {
		if tgt.Root() != root {
			continue
		}
		ft := typeAt(nt, tgt.Sel())
		for src := range srcs {
			sr := src.Root()
			if sr == root {
				// storage reached through an immutable-by-policy descriptor (group, curve, modulus) is
				// shared by every value of the group: a reference into it is foreign storage
				if root != "P0" || !throughPolicyPointer(nt, src) {
					continue
				}
			}
			n++
			if why := policyReason(ft); why != "" {
				// byte slices are immutable by policy only as the DST tag field of a BLS12-381 point
				if core.Short(types.TypeString(ft, nil)) != "[]byte" || strings.HasSuffix(strings.TrimSuffix(string(tgt), "…"), ".dst") {
					continue
				}
			}
			bad = append(bad, fmt.Sprintf("%s may hold a reference into %s (type %v)", tgt, src, ft))
		}
	}
	sort.Strings(bad)
	site := "shares no mutable storage with its source"
	if len(bad) > 0 {
		c.R.Bad("EFX-INDEP", name, site, pos, strings.Join(bad, "; "))
	} else {
		c.R.Ok("EFX-INDEP", name, site, pos, fmt.Sprintf("%d shared referents, all immutable by policy", n), true)
	}
}

// EFXReadOnly: EFX-RO on the read-only methods of every point / scalar
// implementation.
func EFXReadOnlyTypes(c *Ctx, cfg string, an *efx.Analyzer) {
	p := c.Prog(cfg)
	if p == nil {
		return
	}
	for _, it := range c.implTypes(p) {
		if it.Kind == "xof" {
			continue
		}
		for _, m := range readOnlyMethods {
			fn := p.Method(it.Named, m)
			if fn == nil || len(fn.Blocks) == 0 || fn.Synthetic != "" {
				continue
			}
			roCheck(c, p, an, fn, "EFX-RO", nil)
		}
	}
}

// roCheck: fn writes nothing reachable from its parameters (except stream /
// writer parameters and those in allow) nor any global.
func roCheck(c *Ctx, p *core.Prog, an *efx.Analyzer, fn *ssa.Function, rule string, allow map[int]bool) {
	roCheckP(c, p, an, fn, rule, allow, nil)
}

func roCheckP(c *Ctx, p *core.Prog, an *efx.Analyzer, fn *ssa.Function, rule string, allow map[int]bool, allowPaths []string) {
	name := shortFn(fn)
	pos := p.FnPos(fn)
	if !hasReturn(fn) {
		c.R.Ok(rule, name, "read-only", pos, "unsupported operation (unconditional panic)", false)
		return
	}
	s := an.Summary(fn)
	c.R.CallSites += countCalls(fn)
	if len(s.Unknown) > 0 {
		c.R.Unk(rule, name, "read-only", pos, "effects not fully resolved: "+s.Unknown[0])
		return
	}
	bad := writesOutside(fn, s, func(i int) bool { return allow[i] })
	if len(allowPaths) > 0 {
		var keep []efx.Path
		for _, w := range bad {
			ok := false
			for _, ap := range allowPaths {
				if efx.Under(w, efx.Path(ap)) {
					ok = true
				}
			}
			if !ok {
				keep = append(keep, w)
			}
		}
		bad = keep
	}
	if len(bad) > 0 {
		c.R.Bad(rule, name, "read-only", pos, "may write shared memory: "+describeWrites(p, s, bad))
	} else {
		c.R.Ok(rule, name, "read-only", pos, fmt.Sprintf("%d regions read, none written", len(s.Reads)), true)
	}
}

// ---- read-only targets beyond the point/scalar types -------------------------

// roTargets: functions that must not write memory reachable from their
// parameters (allow: parameter indices that are outputs by contract).
type roTarget struct {
	Func       string
	Allow      []int
	AllowPaths []string // regions whose writes are outside the claim (with reason in Why)
	Why        string
}

func roTargetList(c *Ctx, p *core.Prog) []roTarget {
	var out []roTarget
	add := func(why string, fs ...string) {
		for _, f := range fs {
			out = append(out, roTarget{Func: f, Why: why})
		}
	}
	// groups and suites: accessors and pairing evaluation
	if it := p.LookupInterface(core.ModPath, "Group"); it != nil {
		for _, nt := range p.Implementors(it) {
			for _, m := range []string{"String", "ScalarLen", "Scalar", "PointLen", "Point", "Hash", "XOF", "RandomStream", "G1", "G2", "GT", "Pair", "ValidatePairing", "NewKey"} {
				if fn := p.Method(nt, m); fn != nil && len(fn.Blocks) > 0 && fn.Synthetic == "" {
					out = append(out, roTarget{Func: shortFn(fn), Why: "suite/group accessor or pairing evaluation on shared operands"})
				}
			}
		}
	}
	if it := p.LookupInterface(core.ModPath+"/pairing", "Suite"); it != nil {
		for _, nt := range p.Implementors(it) {
			for _, m := range []string{"G1", "G2", "GT", "Pair", "ValidatePairing", "Hash", "XOF", "RandomStream", "String"} {
				if fn := p.Method(nt, m); fn != nil && len(fn.Blocks) > 0 && fn.Synthetic == "" {
					out = append(out, roTarget{Func: shortFn(fn), Why: "pairing suite"})
				}
			}
		}
	}
	add("public polynomial shared between verifiers",
		"(*share.PubPoly).Eval", "(*share.PubPoly).Check", "(*share.PubPoly).Commit", "(*share.PubPoly).Info", "(*share.PubPoly).Threshold",
		"(*share.PubPoly).Equal", "(*share.PubPoly).Shares", "(*share.PubPoly).Add",
		"(*share.PriPoly).Eval", "(*share.PriPoly).Shares", "(*share.PriPoly).Equal", "(*share.PriPoly).Commit", "(*share.PriPoly).Secret",
		"(*share.PriPoly).Threshold", "(*share.PriPoly).Coefficients", "(*share.PriPoly).Add", "(*share.PriPoly).Mul",
		"share.RecoverSecret", "share.RecoverCommit", "share.RecoverPriPoly", "share.RecoverPubPoly")
	add("verification with shared keys / messages / signatures",
		"sign/schnorr.Verify", "sign/schnorr.VerifyWithChecks", "sign/schnorr.Sign", "sign/eddsa.Verify", "sign/eddsa.VerifyWithChecks",
		"(*sign/bls.scheme).Verify", "(*sign/bls.scheme).Sign", "(*sign/tbls.scheme).VerifyPartial", "(*sign/tbls.scheme).VerifyRecovered",
		"(*sign/tbls.scheme).Recover", "(*sign/tbls.scheme).Sign",
		"(*sign/bdn.Scheme).Verify", "(*sign/bdn.Scheme).AggregateSignatures", "(*sign/bdn.Scheme).AggregatePublicKeys", "(*sign/bdn.Scheme).Sign",
		"sign/cosi.Verify", "sign/anon.Verify", "sign/anon.Sign", "sign/dss.Verify", "(*proof/dleq.Proof).Verify", "proof/dleq.NewDLEQProof",
		"proof/dleq.NewDLEQProofBatch",
		"share/pvss.VerifyEncShare", "share/pvss.VerifyEncShareBatch", "share/pvss.DecShare", "share/pvss.DecShareBatch",
		"share/pvss.VerifyDecShare", "share/pvss.VerifyDecShareBatch", "share/pvss.RecoverSecret", "share/pvss.EncShares",
		"encrypt/ecies.Encrypt", "encrypt/ecies.Decrypt", "encrypt/ibe.EncryptCCAonG1", "encrypt/ibe.DecryptCCAonG1",
		"encrypt/ibe.EncryptCCAonG2", "encrypt/ibe.DecryptCCAonG2", "encrypt/ibe.EncryptCPAonG1", "encrypt/ibe.DecryptCPAonG1",
		"sign/anon.Encrypt", "sign/anon.Decrypt")
	add("signing with a shared key object does not change it",
		"(*sign/eddsa.EdDSA).Sign", "(*sign/eddsa.EdDSA).MarshalBinary", "(*sign/dss.DSS).EnoughPartialSig", "(*sign/dss.DSS).Signature",
		"(*share/vss/pedersen.Aggregator).DealCertified", "(*share/vss/rabin.aggregator).DealCertified", "(*share/vss/rabin.aggregator).EnoughApprovals",
		"(*share/vss/pedersen.Aggregator).Responses", "(*share/vss/pedersen.Aggregator).MissingResponses")
	add("participation mask read by several goroutines",
		"(*sign/bdn.Mask).Mask", "(*sign/bdn.Mask).Len", "(*sign/bdn.Mask).GetBit", "(*sign/bdn.Mask).IndexOfNthEnabled", "(*sign/bdn.Mask).NthEnabledAtIndex",
		"(*sign/bdn.Mask).Publics", "(*sign/bdn.Mask).Participants", "(*sign/bdn.Mask).CountEnabled", "(*sign/bdn.Mask).CountTotal", "(*sign/bdn.Mask).Clone",
		"(*sign/cosi.Mask).Mask", "(*sign/cosi.Mask).Len", "(*sign/cosi.Mask).IndexEnabled", "(*sign/cosi.Mask).KeyEnabled",
		"(*sign/cosi.Mask).CountEnabled", "(*sign/cosi.Mask).CountTotal")
	out = append(out, roTarget{Func: "(*util/random.randstream).XORKeyStream", Allow: []int{1}, AllowPaths: []string{"P0.Readers*[]*"},
		Why: "stateless random stream: only dst is written; the user-supplied readers advance (races inside user readers are not claimed)"})
	add("hex/stream helpers do not change the value encoded",
		"util/encoding.PointToStringHex", "util/encoding.ScalarToStringHex", "util/encoding.WriteHexPoint", "util/encoding.WriteHexScalar",
		"group/internal/marshalling.PointMarshalTo", "group/internal/marshalling.ScalarMarshalTo")
	return out
}

func EFXReadOnlyTargets(c *Ctx, cfg string, an *efx.Analyzer) {
	p := c.Prog(cfg)
	if p == nil {
		return
	}
	seen := map[string]bool{}
	for _, t := range roTargetList(c, p) {
		if seen[t.Func] {
			continue
		}
		seen[t.Func] = true
		fn := p.Fn(t.Func)
		if fn == nil || len(fn.Blocks) == 0 {
			c.R.Unk("EFX-RO", t.Func, "read-only", "", "anchored function not found")
			continue
		}
		allow := map[int]bool{}
		for _, i := range t.Allow {
			allow[i] = true
		}
		roCheckP(c, p, an, fn, "EFX-RO", allow, t.AllowPaths)
	}
}

// EFXAlias: EFX-ALIAS over every mutator that takes operands of the
// receiver's kind: under each scenario "operand k is the receiver" (and all
// operands at once) no operand data may be read after the receiver has been
// written (context-sensitively through the callees that receive aliased
// arguments).
func EFXAlias(c *Ctx, cfg string, an *efx.Analyzer) { EFXAliasKinds(c, cfg, an, "") }

// EFXAliasKinds restricts the aliasing scenarios to one kind of implementation ("scalar", "point"; "" = both).
func EFXAliasKinds(c *Ctx, cfg string, an *efx.Analyzer, kind string) {
	p := c.Prog(cfg)
	if p == nil {
		return
	}
	for _, it := range c.implTypes(p) {
		if it.Kind == "xof" || kind != "" && it.Kind != kind {
			continue
		}
		muts := pointMutators
		if it.Kind == "scalar" {
			muts = scalarMutators
		}
		for _, m := range muts {
			fn := p.Method(it.Named, m)
			if fn == nil || len(fn.Blocks) == 0 || fn.Synthetic != "" || !hasReturn(fn) {
				continue
			}
			var ops []int
			for i, prm := range fn.Params {
				if i == 0 {
					continue
				}
				// only operands whose dynamic type can be the receiver's: points for points, scalars for scalars
				ts := types.TypeString(prm.Type(), nil)
				if it.Kind == "point" && ts == core.ModPath+".Point" || it.Kind == "scalar" && ts == core.ModPath+".Scalar" {
					ops = append(ops, i)
				}
			}
			if len(ops) == 0 {
				continue
			}
			name := shortFn(fn)
			var scenarios [][]int
			for _, k := range ops {
				scenarios = append(scenarios, []int{k})
			}
			if len(ops) > 1 {
				scenarios = append(scenarios, ops)
			}
			for _, sc := range scenarios {
				ctx := efx.AliasCtx{0: {"A"}}
				var lbl []string
				for _, k := range sc {
					ctx[k] = []efx.Path{"A"}
					lbl = append(lbl, fn.Params[k].Name())
				}
				site := "receiver is also operand " + strings.Join(lbl, "+")
				hz := an.CheckAlias(fn, ctx)
				if len(hz) == 0 {
					c.R.Ok("EFX-ALIAS", name, site, p.FnPos(fn), "no operand region is read after the receiver is written", true)
					continue
				}
				var parts []string
				for i, h := range hz {
					if i >= 3 {
						parts = append(parts, fmt.Sprintf("… %d more", len(hz)-3))
						break
					}
					parts = append(parts, fmt.Sprintf("%s reads %s at %s after it was written at %s%s", core.Short(h.Fn.String()), h.Region,
						p.Pos(h.ReadPos), p.Pos(h.WritePos), chainStr(h.Chain)))
				}
				c.R.Bad("EFX-ALIAS", name, site, p.Pos(hz[0].ReadPos), strings.Join(parts, "; "))
			}
		}
	}
	var leaves []string
	for l := range an.AliasSafeLeaves {
		leaves = append(leaves, l)
	}
	sort.Strings(leaves)
	c.R.Extra["alias_safe_leaves_assumed"] = leaves
}

func chainStr(ch []string) string {
	if len(ch) == 0 {
		return ""
	}
	return " (via " + strings.Join(ch, " → ") + ")"
}

func isKyberValue(t types.Type) bool {
	s := types.TypeString(t, nil)
	return s == core.ModPath+".Point" || s == core.ModPath+".Scalar"
}

// throughPolicyPointer: the path dereferences a field whose type is immutable
// by policy (e.g. P0.g*.G*): the storage belongs to the shared descriptor.
func throughPolicyPointer(nt *types.Named, p efx.Path) bool {
	sel := p.Sel()
	for i := 0; i < len(sel); i++ {
		if sel[i] == '*' {
			if t := typeAt(nt, sel[:i]); t != nil && policyReason(t) != "" {
				// the referent itself being the policy object is fine (P.c = P2.c); deeper is shared storage
				return len(sel) > i+1
			}
		}
	}
	return false
}

// EFXGlobals (EFX-GLOBAL): no mutator of any point / scalar type writes
// package-level state (hidden shared scratch would make operations on
// unrelated values interfere under concurrency).
func EFXGlobals(c *Ctx, cfg string, an *efx.Analyzer) {
	p := c.Prog(cfg)
	if p == nil {
		return
	}
	for _, it := range c.implTypes(p) {
		if it.Kind == "xof" {
			continue
		}
		muts := pointMutators
		if it.Kind == "scalar" {
			muts = scalarMutators
		}
		for _, m := range muts {
			fn := p.Method(it.Named, m)
			if fn == nil || len(fn.Blocks) == 0 || fn.Synthetic != "" || !hasReturn(fn) {
				continue
			}
			s := an.Summary(fn)
			var bad []efx.Path
			for w := range s.Writes {
				if efx.IsGlobalRoot(w.Root()) {
					bad = append(bad, w)
				}
			}
			sort.Slice(bad, func(i, j int) bool { return bad[i] < bad[j] })
			if len(bad) > 0 {
				c.R.Bad("EFX-GLOBAL", shortFn(fn), "writes no package-level state", p.FnPos(fn), "may write "+describeWrites(p, s, bad))
			} else {
				c.R.Ok("EFX-GLOBAL", shortFn(fn), "writes no package-level state", p.FnPos(fn), "", true)
			}
		}
	}
}

// EFXPolicy (EFX-POLICY): the who-may-write side of "immutable by policy".
// EFX-INDEP lets Set / Clone share group descriptors, moduli and DST tags
// because nothing writes them after construction; this rule checks that
// claim: no method of any point / scalar implementation may write storage
// reached *through* such a referent from its receiver (P0.g*.P…, P0.dst[]).
// Constructors and parameter setters of the descriptor types themselves are
// not methods of value types and are outside the rule.
func EFXPolicy(c *Ctx, cfg string, an *efx.Analyzer) {
	p := c.Prog(cfg)
	if p == nil {
		return
	}
	for _, it := range c.implTypes(p) {
		if it.Kind == "xof" {
			continue
		}
		ms := types.NewMethodSet(types.NewPointer(it.Named))
		for i := 0; i < ms.Len(); i++ {
			fn := p.Method(it.Named, ms.At(i).Obj().Name())
			if fn == nil || len(fn.Blocks) == 0 || fn.Synthetic != "" {
				continue
			}
			s := an.Summary(fn)
			var bad []efx.Path
			for w := range s.Writes {
				if w.Root() != "P0" {
					continue
				}
				if throughPolicyPointer(it.Named, w) || throughDST(it.Named, w) {
					bad = append(bad, w)
				}
			}
			sort.Slice(bad, func(i, j int) bool { return bad[i] < bad[j] })
			site := "writes nothing reached through an immutable-by-policy referent"
			if len(bad) > 0 {
				c.R.Bad("EFX-POLICY", shortFn(fn), site, p.FnPos(fn), "may write "+describeWrites(p, s, bad))
			} else {
				c.R.Ok("EFX-POLICY", shortFn(fn), site, p.FnPos(fn), "", true)
			}
		}
	}
}

// throughDST: the path writes the bytes of a `dst` tag field (shared between
// every point derived from one suite).
func throughDST(nt *types.Named, p efx.Path) bool {
	sel := p.Sel()
	i := strings.Index(sel, ".dst")
	if i < 0 {
		return false
	}
	rest := sel[i+len(".dst"):]
	if rest == "" || !(rest[0] == '*' || rest[0] == '[') {
		return false
	}
	t := typeAt(nt, sel[:i+len(".dst")])
	return t != nil && core.Short(types.TypeString(t, nil)) == "[]byte"
}
