package rules

import (
	"fmt"
	"go/token"
	"strings"

	"golang.org/x/tools/go/ssa"

	"kyverif/internal/core"
)

// DET-ENT: a function that must be a deterministic function of its inputs
// (and of the stream it is handed) may not reach another entropy source:
// crypto/rand, math/rand, time.Now, os.*, util/random.New, Suite.RandomStream.
// Static calls are followed through the module and the third-party
// back-ends; dynamic calls on stream/reader parameters are the permitted
// source and are skipped; other dynamic calls are resolved through the class
// hierarchy. Reaching a source is a violation reported with the call path.
func entropySource(name string) bool {
	switch name {
	case "crypto/rand.Read", "crypto/rand.Text", "crypto/rand.Prime", // Prime also consumes a nondeterministic byte
		"time.Now", "os.Getpid", "os.Getenv", "os.ReadFile", "os.Open", "os.Hostname", "util/random.New", "runtime.fastrand":
		return true
	}
	// crypto/rand.Int(reader, max) is a function of the reader it is handed: not a source
	switch {
	case strings.HasPrefix(name, "math/rand."), strings.HasPrefix(name, "math/rand/v2."), strings.HasPrefix(name, "(*math/rand."),
		strings.HasPrefix(name, "crypto/internal/sysrand"):
		return true
	}
	return false
}

func isStdlib(fn *ssa.Function) bool {
	pp := core.PkgPathOf(fn)
	first := pp
	if i := strings.Index(pp, "/"); i >= 0 {
		first = pp[:i]
	}
	return !strings.Contains(first, ".")
}

func derivesFromStreamParam(fn *ssa.Function, v ssa.Value) bool {
	seen := map[ssa.Value]bool{}
	var walk func(v ssa.Value) bool
	walk = func(v ssa.Value) bool {
		if v == nil || seen[v] {
			return false
		}
		seen[v] = true
		switch x := v.(type) {
		case *ssa.Parameter:
			return true
		case *ssa.FreeVar:
			return true
		case *ssa.Phi:
			for _, e := range x.Edges {
				if !walk(e) {
					return false
				}
			}
			return len(x.Edges) > 0
		case *ssa.MakeInterface:
			return walk(x.X)
		case *ssa.ChangeInterface:
			return walk(x.X)
		case *ssa.TypeAssert:
			return walk(x.X)
		case *ssa.Extract:
			return walk(x.Tuple)
		case *ssa.UnOp:
			if x.Op == token.MUL {
				return walk(x.X)
			}
		case *ssa.FieldAddr:
			return walk(x.X)
		case *ssa.Field:
			return walk(x.X)
		case *ssa.IndexAddr:
			return walk(x.X)
		case *ssa.Index:
			return walk(x.X)
		case *ssa.Alloc:
			// local struct wrapping a parameter (e.g. cipher.StreamReader{S: stream})
			for _, r := range *x.Referrers() {
				if st, ok := r.(*ssa.Store); ok {
					if fa, ok := st.Addr.(*ssa.FieldAddr); ok && fa.X == x && isStreamParam(st.Val.Type()) {
						if walk(st.Val) {
							return true
						}
					}
				}
			}
		case *ssa.Next:
			return walk(x.Iter)
		case *ssa.Range:
			return walk(x.X)
		}
		return false
	}
	return walk(v)
}

// EntropyFree checks the target functions.
func EntropyFree(c *Ctx, cfg string, targets []string) {
	p := c.Prog(cfg)
	if p == nil {
		return
	}
	for _, t := range targets {
		fn := p.Fn(t)
		if fn == nil || len(fn.Blocks) == 0 {
			c.R.Unk("DET-ENT", t, "anchor", "", "function not found")
			continue
		}
		path, visited, calls := entropyReach(p, fn)
		c.R.CallSites += calls
		if path != nil {
			c.R.Bad("DET-ENT", t, "reaches no entropy source other than its stream", p.FnPos(fn), "reaches "+strings.Join(path, " → "))
		} else {
			c.R.Ok("DET-ENT", t, "reaches no entropy source other than its stream", p.FnPos(fn), fmt.Sprintf("%d functions, %d call sites explored", visited, calls), true)
		}
	}
}

func entropyReach(p *core.Prog, root *ssa.Function) ([]string, int, int) {
	type item struct {
		fn   *ssa.Function
		path []string
	}
	seen := map[*ssa.Function]bool{root: true}
	work := []item{{root, []string{core.Short(root.String())}}}
	calls := 0
	cha := p.CHA()
	for len(work) > 0 {
		it := work[0]
		work = work[1:]
		fn := it.fn
		for _, b := range fn.Blocks {
			for _, in := range b.Instrs {
				if u, ok := in.(*ssa.UnOp); ok && u.Op == token.MUL {
					if g, ok := u.X.(*ssa.Global); ok && core.Short(g.String()) == "crypto/rand.Reader" {
						return append(it.path, "crypto/rand.Reader"), len(seen), calls
					}
				}
				ci, ok := in.(ssa.CallInstruction)
				if !ok {
					continue
				}
				calls++
				cc := ci.Common()
				var callees []*ssa.Function
				if cc.IsInvoke() {
					if cc.Method.Name() == "Error" && len(cc.Args) == 0 {
						continue // error.Error(): formatting only
					}
					if cc.Method.Name() == "RandomStream" {
						return append(it.path, "(Suite).RandomStream"), len(seen), calls
					}
					if isStreamParam(cc.Value.Type()) && derivesFromStreamParam(fn, cc.Value) {
						continue // the stream / reader handed in: the permitted source
					}
					if node := cha.Nodes[fn]; node != nil {
						for _, e := range node.Out {
							if e.Site == ci && e.Callee != nil {
								callees = append(callees, e.Callee.Func)
							}
						}
					}
				} else if f := cc.StaticCallee(); f != nil {
					callees = append(callees, f)
				} else if node := p.CG().Nodes[fn]; node != nil {
					for _, e := range node.Out {
						if e.Site == ci && e.Callee != nil {
							callees = append(callees, e.Callee.Func)
						}
					}
				}
				for _, f := range callees {
					name := core.Short(f.String())
					if f.Origin() != nil {
						name = core.Short(f.Origin().String())
					}
					if entropySource(name) {
						return append(it.path, name), len(seen), calls
					}
					if seen[f] || len(f.Blocks) == 0 || isStdlib(f) {
						continue
					}
					seen[f] = true
					np := append(append([]string{}, it.path...), name)
					work = append(work, item{f, np})
				}
			}
		}
	}
	return nil, len(seen), calls
}

func entropyTargets(c *Ctx, p *core.Prog, prop string) []string {
	var out []string
	add := func(fs ...string) { out = append(out, fs...) }
	methods := func(kind string, ms ...string) {
		for _, it := range c.implTypes(p) {
			if it.Kind != kind {
				continue
			}
			for _, m := range ms {
				if fn := p.Method(it.Named, m); fn != nil && len(fn.Blocks) > 0 && fn.Synthetic == "" && hasReturn(fn) {
					out = append(out, shortFn(fn))
				}
			}
		}
	}
	switch prop {
	case "C02":
		methods("scalar", "Pick", "SetBytes", "Add", "Mul", "Inv", "SetInt64")
		add("util/random.Int", "util/random.Bits", "util/random.Bytes")
	case "C08":
		add("(*sign/eddsa.EdDSA).Sign", "sign/eddsa.VerifyWithChecks", "sign/eddsa.Verify", "sign/schnorr.VerifyWithChecks", "sign/schnorr.Verify",
			"sign/anon.Verify", "(*group/edwards25519.Curve).NewKeyAndSeedWithInput", "sign/schnorr.hash")
	case "C17":
		methods("point", "Pick", "Embed", "Hash", "Data")
		add("group/edwards25519.hashToField", "group/edwards25519.expandMessageXMD", "share/vss/rabin.deriveH", "pairing/bn254.hashToPoint")
	case "C19":
		methods("xof", "Read", "Write", "XORKeyStream", "Clone", "Reseed", "Reset")
		add("util/random.Int", "util/random.Bits", "util/random.Bytes", "(*util/random.randstream).XORKeyStream")
	}
	return out
}
