package rules

import (
	"encoding/json"
	"fmt"
	"go/token"
	"go/types"
	"os"
	"path/filepath"
	"sort"
	"strings"

	"golang.org/x/tools/go/ssa"

	"kyverif/internal/apo"
	"kyverif/internal/core"
	"kyverif/internal/efx"
)

// SH-MODULUS: every conversion through mod.Int in the Ed25519 scalar
// implementation uses the prime group order as its modulus (a scalar reduced
// modulo any other constant — e.g. the full curve order 8l — is not in
// canonical form, so Equal stops coinciding with equality of residues).
func ScalarModulus(c *Ctx, cfg string) {
	p := c.Prog(cfg)
	if p == nil {
		return
	}
	n := 0
	for _, fn := range p.ModuleFuncs() {
		if core.Short(core.PkgPathOf(fn)) != "group/edwards25519" {
			continue
		}
		recv := fn.Signature.Recv()
		if recv == nil || !strings.HasSuffix(types.TypeString(recv.Type(), nil), "edwards25519.scalar") {
			continue
		}
		d := apo.NewDescriber(fn)
		for _, b := range fn.Blocks {
			for _, in := range b.Instrs {
				call, ok := in.(*ssa.Call)
				if !ok {
					continue
				}
				f := call.Call.StaticCallee()
				if f == nil {
					continue
				}
				name := core.Short(f.String())
				if !strings.HasPrefix(name, "group/mod.NewInt") && !strings.HasPrefix(name, "(*group/mod.Int).Init") && name != "util/random.Int" {
					continue
				}
				// the modulus argument: the one of type *compatiblemod.Mod
				for _, a := range call.Call.Args {
					if !strings.HasSuffix(types.TypeString(a.Type(), nil), "compatiblemod.Mod") {
						continue
					}
					n++
					got := d.Val(a)
					site := fmt.Sprintf("modulus of %s", name)
					if got == "global(group/edwards25519.primeOrder)" {
						c.R.Ok("SH-MODULUS", shortFn(fn), site, p.Pos(call.Pos()), "prime group order", true)
					} else {
						c.R.Bad("SH-MODULUS", shortFn(fn), site, p.Pos(call.Pos()), "scalar value reduced modulo "+got+" instead of the prime group order")
					}
				}
			}
		}
	}
	if n < 5 {
		c.R.Fatalf("SH-MODULUS matched %d conversions, expected at least 5", n)
	}
}

// EFX-PTREQ: kyber.Point / kyber.Scalar values are compared with Equal, never
// by identity — except the explicit alias test of a mutator against its own
// receiver (`if G == P`). `p.b != q.b` on interface values compares object
// identity, so two equal base points held as distinct objects look different.
func PointerEquality(c *Ctx, cfg string, pkgs []string) {
	p := c.Prog(cfg)
	if p == nil {
		return
	}
	n := 0
	isKV := func(t types.Type) bool {
		s := types.TypeString(t, nil)
		return s == core.ModPath+".Point" || s == core.ModPath+".Scalar"
	}
	for _, fn := range p.ModuleFuncs() {
		pp := core.Short(core.PkgPathOf(fn))
		ok := false
		for _, x := range pkgs {
			if pp == x || strings.HasPrefix(pp, x+"/") {
				ok = true
			}
		}
		if !ok {
			continue
		}
		for _, b := range fn.Blocks {
			for _, in := range b.Instrs {
				bo, ok := in.(*ssa.BinOp)
				if !ok || (bo.Op != token.EQL && bo.Op != token.NEQ) || !isKV(bo.X.Type()) {
					continue
				}
				if isNilC(bo.X) || isNilC(bo.Y) {
					continue
				}
				n++
				// alias test against the method's own receiver
				recvTest := false
				if len(fn.Params) > 0 && fn.Signature.Recv() != nil {
					for _, v := range []ssa.Value{bo.X, bo.Y} {
						if mi, ok := v.(*ssa.MakeInterface); ok && mi.X == ssa.Value(fn.Params[0]) {
							recvTest = true
						}
					}
				}
				if recvTest {
					c.R.Ok("EFX-PTREQ", shortFn(fn), "alias test against own receiver", p.Pos(bo.Pos()), "", false)
				} else {
					c.R.Bad("EFX-PTREQ", shortFn(fn), "identity comparison of group elements", p.Pos(bo.Pos()), "kyber.Point/Scalar values compared with ==/!= (object identity) instead of Equal")
				}
			}
		}
	}
	c.R.Ok("EFX-PTREQ", "module", fmt.Sprintf("identity comparisons of kyber values in %v", pkgs), "", fmt.Sprintf("%d found, all alias tests", n), false)
}

func isNilC(v ssa.Value) bool {
	c, ok := v.(*ssa.Const)
	return ok && c.Value == nil
}

// EFX-FRESHRET: functions whose results are fresh objects today (encodings,
// aggregates, recovered values, tags) must keep returning fresh objects: a
// result that aliases an argument or internal table can be changed behind the
// caller's back (or lets the caller corrupt the table). Frozen from the tree.
func freshRetPath() string { return filepath.Join(core.VerifDir(), "tables", "freshret.json") }

func freshRetTargets(c *Ctx, p *core.Prog) []*ssa.Function {
	var out []*ssa.Function
	for _, it := range c.implTypes(p) {
		for _, m := range []string{"MarshalBinary", "Clone", "Data", "String"} {
			if fn := p.Method(it.Named, m); fn != nil && len(fn.Blocks) > 0 && fn.Synthetic == "" && hasReturn(fn) {
				out = append(out, fn)
			}
		}
	}
	for _, fn := range p.ModuleFuncs() {
		pp := core.Short(core.PkgPathOf(fn))
		if !(strings.HasPrefix(pp, "sign") || strings.HasPrefix(pp, "share") || strings.HasPrefix(pp, "encrypt") || strings.HasPrefix(pp, "proof") || pp == "util/encoding" || pp == "shuffle") {
			continue
		}
		if fn.Object() == nil || !fn.Object().Exported() || fn.Synthetic != "" || fn.Parent() != nil || !hasReturn(fn) {
			continue
		}
		out = append(out, fn)
	}
	sort.Slice(out, func(i, j int) bool { return out[i].String() < out[j].String() })
	return out
}

func computeFreshRet(c *Ctx) (map[string][]int, map[string]string) {
	p := c.Prog("default")
	if p == nil {
		return nil, nil
	}
	an := efx.NewAnalyzer(p)
	res := map[string][]int{}
	pos := map[string]string{}
	for _, fn := range freshRetTargets(c, p) {
		s := an.Summary(fn)
		for k, r := range s.Ret {
			rt := fn.Signature.Results().At(k).Type()
			if _, isSlice := rt.Underlying().(*types.Slice); !isSlice {
				if _, isI := rt.Underlying().(*types.Interface); !isI || isErr(rt) {
					if _, isP := rt.Underlying().(*types.Pointer); !isP {
						continue
					}
				}
			}
			if len(r) == 0 {
				continue
			}
			fresh := true
			for pth := range r {
				if !strings.HasPrefix(pth.Root(), "R") {
					fresh = false
				}
			}
			if fresh {
				res[shortFn(fn)] = append(res[shortFn(fn)], k)
				pos[shortFn(fn)] = p.FnPos(fn)
			}
		}
	}
	return res, pos
}

func GenFreshRet(c *Ctx) (int, error) {
	res, _ := computeFreshRet(c)
	b, _ := json.MarshalIndent(res, "", " ")
	return len(res), os.WriteFile(freshRetPath(), append(b, '\n'), 0o644)
}

func CheckFreshRet(c *Ctx, prefixes []string) {
	b, err := os.ReadFile(freshRetPath())
	if err != nil {
		c.R.Fatalf("fresh-return table: %v", err)
		return
	}
	frozen := map[string][]int{}
	if err := json.Unmarshal(b, &frozen); err != nil {
		c.R.Fatalf("fresh-return table: %v", err)
		return
	}
	cur, _ := computeFreshRet(c)
	p := c.Prog("default")
	var names []string
	for n := range frozen {
		names = append(names, n)
	}
	sort.Strings(names)
	for _, n := range names {
		ok := false
		for _, pre := range prefixes {
			if strings.Contains(n, pre) {
				ok = true
			}
		}
		if !ok {
			continue
		}
		fn := p.Fn(n)
		if fn == nil {
			c.R.Unk("EFX-FRESHRET", n, "anchor", "", "function not found")
			continue
		}
		for _, k := range frozen[n] {
			has := false
			for _, j := range cur[n] {
				if j == k {
					has = true
				}
			}
			site := fmt.Sprintf("result %d is a fresh object", k)
			if has {
				c.R.Ok("EFX-FRESHRET", n, site, p.FnPos(fn), "", true)
			} else {
				c.R.Bad("EFX-FRESHRET", n, site, p.FnPos(fn), "the result may now alias an argument, the receiver or an internal table (it was a fresh object)")
			}
		}
	}
}
