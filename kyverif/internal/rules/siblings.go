package rules

import (
	"fmt"

	"golang.org/x/tools/go/ssa"
	"regexp"
	"sort"
	"strings"

	"kyverif/internal/apo"
)

// SH-SIBLING (cross-check of sibling implementations, Engler et al.): the
// Jacobian-coordinate routines of BN256 and BN254, on G1 (curvePoint over
// gfP) and G2 (twistPoint over gfP2), are four copies of one algorithm. Their
// special-case structure must agree: after normalising type names, every
// sibling branches on the same set of conditions (operand-at-infinity tests
// for both operands, the equal-points dispatch to Double, the Z = 0/1 tests
// of MakeAffine). A guard present in three siblings and absent in the fourth
// is reported. No frozen table: the siblings are each other's reference.
var siblingNorm = []struct{ re, to string }{
	{`pairing/bn25[46]\.`, ""},
	{`\bcurvePoint\b`, "PT"}, {`\btwistPoint\b`, "PT"},
	{`\bgfP2\b`, "F"}, {`\bgfP\b`, "F"},
	{`global\(curveB\)`, "global(B)"}, {`global\(twistB\)`, "global(B)"},
}

func normSibling(s string) string {
	for _, n := range siblingNorm {
		s = regexp.MustCompile(n.re).ReplaceAllString(s, n.to)
	}
	return s
}

func SiblingAgreement(c *Ctx, cfg string) {
	p := c.Prog(cfg)
	if p == nil {
		return
	}
	for _, m := range []string{"Add", "Double", "Mul", "MakeAffine", "IsInfinity", "Neg"} {
		type sib struct {
			name  string
			conds map[string]bool
		}
		var sibs []sib
		for _, pk := range []string{"bn256", "bn254"} {
			for _, t := range []string{"curvePoint", "twistPoint"} {
				name := fmt.Sprintf("(*pairing/%s.%s).%s", pk, t, m)
				fn := p.Fn(name)
				if fn == nil || len(fn.Blocks) == 0 {
					c.R.Unk("SH-SIBLING", name, "anchor", "", "sibling not found")
					continue
				}
				a := apo.Analyze(fn, apo.AcceptSpec{})
				cs := map[string]bool{}
				for _, cd := range a.Conds() {
					cs[normSibling(cd)] = true
				}
				sibs = append(sibs, sib{name, cs})
			}
		}
		if len(sibs) < 2 {
			continue
		}
		union := map[string]int{}
		for _, s := range sibs {
			for k := range s.conds {
				union[k]++
			}
		}
		var keys []string
		for k := range union {
			keys = append(keys, k)
		}
		sort.Strings(keys)
		for _, s := range sibs {
			var missing []string
			for _, k := range keys {
				if !s.conds[k] && union[k] >= len(sibs)-1 { // all the other siblings have it
					missing = append(missing, k)
				}
			}
			site := "special-case structure agrees with its siblings"
			fn := p.Fn(s.name)
			if len(missing) > 0 {
				c.R.Bad("SH-SIBLING", s.name, site, p.FnPos(fn), "lacks a special case all its siblings have: "+strings.Join(missing, "; "))
			} else {
				c.R.Ok("SH-SIBLING", s.name, site, p.FnPos(fn), fmt.Sprintf("%d branch conditions, %d shared by all", len(s.conds), len(keys)), len(s.conds) > 0)
			}
		}
	}
}

// SiblingSkeletons compares, between the BN256 and BN254 packages, the call
// skeleton (resolved callee + canonical arguments) of every method the two
// packages define on the same type.
func SiblingSkeletons(c *Ctx, cfg string, report bool) map[string][2][]string {
	p := c.Prog(cfg)
	out := map[string][2][]string{}
	if p == nil {
		return out
	}
	skel := func(name string) ([]string, bool) {
		fn := p.Fn(name)
		if fn == nil || len(fn.Blocks) == 0 {
			return nil, false
		}
		d := apo.NewDescriber(fn)
		set := map[string]bool{}
		for _, b := range fn.Blocks {
			for _, in := range b.Instrs {
				switch x := in.(type) {
				case ssa.CallInstruction:
					if _, isB := x.Common().Value.(*ssa.Builtin); isB {
						continue
					}
					set[normSibling(d.CallDesc(x.Common()))] = true
				case *ssa.Store:
					set[normSibling("store "+d.Val(x.Addr)+" = "+d.Val(x.Val))] = true
				}
			}
		}
		var l []string
		for s := range set {
			l = append(l, s)
		}
		sort.Strings(l)
		return l, true
	}
	for _, t := range []string{"curvePoint", "twistPoint", "gfP2", "gfP6", "gfP12"} {
		for _, fn := range p.ModuleFuncs() {
			n := shortFn(fn)
			pre := "(*pairing/bn256." + t + ")."
			if !strings.HasPrefix(n, pre) {
				continue
			}
			m := strings.TrimPrefix(n, pre)
			a, ok1 := skel(n)
			b, ok2 := skel("(*pairing/bn254." + t + ")." + m)
			if !ok1 || !ok2 {
				continue
			}
			out[t+"."+m] = [2][]string{a, b}
		}
	}
	return out
}

// siblingExceptions: methods whose BN256 and BN254 versions legitimately
// differ (one line of reason each, confirmed by reading).
var siblingExceptions = map[string]string{
	"curvePoint.Mul":        "BN254 multiplies with a GLV lattice decomposition, BN256 with plain double-and-add",
	"curvePoint.String":     "formatting only",
	"gfP2.String":           "formatting only",
	"gfP6.String":           "formatting only",
	"gfP2.MulXi":            "different non-residue xi of the two curves (i+3 vs 9+i)",
	"twistPoint.IsOnCurve":  "BN254 additionally checks membership of the order-q subgroup",
	"twistPoint.MakeAffine": "BN254 normalises a clone and copies it back",
}

// SiblingSkeletonCheck (SH-SIBLING): BN254 is a port of BN256; every method
// the two packages define on the same type must make the same calls with the
// same canonical arguments and the same stores (after normalising type
// names), except the named, explained differences. A deviant sibling is
// reported with the calls only one side makes (either side may be the wrong
// one: triage by reading).
func SiblingSkeletonCheck(c *Ctx, cfg string) {
	p := c.Prog(cfg)
	if p == nil {
		return
	}
	sk := SiblingSkeletons(c, cfg, true)
	var keys []string
	for k := range sk {
		keys = append(keys, k)
	}
	sort.Strings(keys)
	if len(keys) < 60 {
		c.R.Fatalf("SH-SIBLING matched %d sibling pairs, expected at least 60", len(keys))
	}
	for _, k := range keys {
		a, b := sk[k][0], sk[k][1]
		am, bm := map[string]bool{}, map[string]bool{}
		for _, x := range a {
			am[x] = true
		}
		for _, x := range b {
			bm[x] = true
		}
		var da, db []string
		for _, x := range a {
			if !bm[x] {
				da = append(da, x)
			}
		}
		for _, x := range b {
			if !am[x] {
				db = append(db, x)
			}
		}
		name := "pairing/bn256|bn254." + k
		site := "BN256 and BN254 versions make the same calls and stores"
		switch {
		case len(da)+len(db) == 0:
			c.R.Ok("SH-SIBLING", name, site, "", fmt.Sprintf("%d calls/stores identical", len(a)), len(a) > 0)
		case siblingExceptions[k] != "":
			c.R.Ok("SH-SIBLING", name, site+" (excepted)", "", siblingExceptions[k], false)
		default:
			cut := func(l []string) string {
				s := strings.Join(l, "; ")
				if len(s) > 300 {
					s = s[:300] + "…"
				}
				return s
			}
			c.R.Bad("SH-SIBLING", name, site, "", "only BN256: ["+cut(da)+"] only BN254: ["+cut(db)+"]")
		}
	}
}


// PairSkeletons: call/store skeletons of the functions two sibling packages
// define under the same (mapped) names.
func PairSkeletons(c *Ctx, cfg, pkgA, pkgB string, typeMap map[string]string, norm [][2]string) map[string][2][]string {
	p := c.Prog(cfg)
	out := map[string][2][]string{}
	if p == nil {
		return out
	}
	normalize := func(s string) string {
		for _, n := range norm {
			s = regexp.MustCompile(n[0]).ReplaceAllString(s, n[1])
		}
		return s
	}
	// hasSibling: the other package defines a function of the same (mapped) name
	hasSibling := func(f *ssa.Function, from, to string) bool {
		n := shortFn(f)
		if strings.HasPrefix(n, from+".") {
			return p.Fn(to+"."+strings.TrimPrefix(n, from+".")) != nil
		}
		for ta, tb := range typeMap {
			if from == pkgB {
				ta, tb = tb, ta
			}
			pre := "(*" + from + "." + ta + ")."
			if strings.HasPrefix(n, pre) {
				return p.Fn("(*"+to+"."+tb+")."+strings.TrimPrefix(n, pre)) != nil
			}
		}
		return false
	}
	skel := func(fn *ssa.Function) []string {
		from, to := pkgA, pkgB
		if strings.Contains(shortFn(fn), pkgB+".") {
			from, to = pkgB, pkgA
		}
		set := map[string]bool{}
		var walk func(f *ssa.Function, args []string, depth int)
		walk = func(f *ssa.Function, args []string, depth int) {
			d := apo.NewDescriber(f)
			a := apo.Analyze(f, apo.AcceptSpec{})
			sub := func(s string) string {
				if args == nil {
					return s
				}
				return apo.SubstParams(s, args)
			}
			for _, b := range f.Blocks {
				for _, in := range b.Instrs {
					switch x := in.(type) {
					case ssa.CallInstruction:
						if _, isB := x.Common().Value.(*ssa.Builtin); isB {
							continue
						}
						n := apo.CalleeName(x.Common())
						if strings.HasPrefix(n, "errors.") || strings.HasPrefix(n, "fmt.") {
							continue
						}
						// a helper that exists on this side only (lines extracted in one of the two
						// packages) counts through what it does
						if g := x.Common().StaticCallee(); g != nil && !x.Common().IsInvoke() && depth < 2 && apo.Inlinable(g) && g != f &&
							strings.Contains(shortFn(g), from+".") && !hasSibling(g, from, to) {
							var as []string
							for _, av := range x.Common().Args {
								as = append(as, sub(d.Val(av)))
							}
							walk(g, as, depth+1)
							continue
						}
						set[normalize(sub(d.CallDesc(x.Common())))] = true
					case *ssa.Store:
						set[normalize("store "+sub(d.Val(x.Addr))+" = "+sub(d.Val(x.Val)))] = true
					}
				}
			}
			for _, cd := range a.Conds() {
				set[normalize("cond "+sub(cd))] = true
			}
		}
		walk(fn, nil, 0)
		var l []string
		for s := range set {
			l = append(l, s)
		}
		sort.Strings(l)
		return l
	}
	for _, fn := range p.ModuleFuncs() {
		n := shortFn(fn)
		if fn.Parent() != nil || fn.Synthetic != "" {
			continue
		}
		var other string
		if strings.HasPrefix(n, pkgA+".") {
			other = pkgB + "." + strings.TrimPrefix(n, pkgA+".")
		} else {
			for ta, tb := range typeMap {
				pre := "(*" + pkgA + "." + ta + ")."
				if strings.HasPrefix(n, pre) {
					other = "(*" + pkgB + "." + tb + ")." + strings.TrimPrefix(n, pre)
				}
			}
		}
		if other == "" {
			continue
		}
		fb := p.Fn(other)
		if fb == nil || len(fb.Blocks) == 0 {
			continue
		}
		out[n] = [2][]string{skel(fn), skel(fb)}
	}
	return out
}
