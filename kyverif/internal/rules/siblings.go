package rules

import (
	"fmt"
	"regexp"
	"sort"
	"strings"

	"kyverif/internal/apo"
)

// SH-SIBLING (cross-check of sibling implementations, Engler et al.): the
// Jacobian-coordinate routines of BN256 and BN254, on G1 (curvePoint over
// gfP) and G2 (twistPoint over gfP2), are four copies of one algorithm. Their
// special-case structure must agree: after normalising type names, every
// sibling branches on the same set of conditions (operand-at-infinity tests
// for both operands, the equal-points dispatch to Double, the Z = 0/1 tests
// of MakeAffine). A guard present in three siblings and absent in the fourth
// is reported. No frozen table: the siblings are each other's reference.
var siblingNorm = []struct{ re, to string }{
	{`pairing/bn25[46]\.`, ""},
	{`\bcurvePoint\b`, "PT"}, {`\btwistPoint\b`, "PT"},
	{`\bgfP2\b`, "F"}, {`\bgfP\b`, "F"},
	{`global\(curveB\)`, "global(B)"}, {`global\(twistB\)`, "global(B)"},
}

func normSibling(s string) string {
	for _, n := range siblingNorm {
		s = regexp.MustCompile(n.re).ReplaceAllString(s, n.to)
	}
	return s
}

func SiblingAgreement(c *Ctx, cfg string) {
	p := c.Prog(cfg)
	if p == nil {
		return
	}
	for _, m := range []string{"Add", "Double", "Mul", "MakeAffine", "IsInfinity", "Neg"} {
		type sib struct {
			name  string
			conds map[string]bool
		}
		var sibs []sib
		for _, pk := range []string{"bn256", "bn254"} {
			for _, t := range []string{"curvePoint", "twistPoint"} {
				name := fmt.Sprintf("(*pairing/%s.%s).%s", pk, t, m)
				fn := p.Fn(name)
				if fn == nil || len(fn.Blocks) == 0 {
					c.R.Unk("SH-SIBLING", name, "anchor", "", "sibling not found")
					continue
				}
				a := apo.Analyze(fn, apo.AcceptSpec{})
				cs := map[string]bool{}
				for _, cd := range a.Conds() {
					cs[normSibling(cd)] = true
				}
				sibs = append(sibs, sib{name, cs})
			}
		}
		if len(sibs) < 2 {
			continue
		}
		union := map[string]int{}
		for _, s := range sibs {
			for k := range s.conds {
				union[k]++
			}
		}
		var keys []string
		for k := range union {
			keys = append(keys, k)
		}
		sort.Strings(keys)
		for _, s := range sibs {
			var missing []string
			for _, k := range keys {
				if !s.conds[k] && union[k] >= len(sibs)-1 { // all the other siblings have it
					missing = append(missing, k)
				}
			}
			site := "special-case structure agrees with its siblings"
			fn := p.Fn(s.name)
			if len(missing) > 0 {
				c.R.Bad("SH-SIBLING", s.name, site, p.FnPos(fn), "lacks a special case all its siblings have: "+strings.Join(missing, "; "))
			} else {
				c.R.Ok("SH-SIBLING", s.name, site, p.FnPos(fn), fmt.Sprintf("%d branch conditions, %d shared by all", len(s.conds), len(keys)), len(s.conds) > 0)
			}
		}
	}
}
