package rules

import (
	"fmt"

	"golang.org/x/tools/go/ssa"

	"kyverif/internal/apo"
)

// ACC-GATE: in the listed filter-then-accumulate functions every update of a
// collection (map entry, append, store into a slice element) is behind all
// the must-pass checks that gate the designated sink: no bookkeeping state may
// be written for an input that has not passed the checks yet (an invalid
// input must not be able to influence what happens to later valid ones).
var accGateFuncs = map[string][]GateSpec{
	"C09": {{Func: "(*sign/tbls.scheme).Recover", Sink: "append:.*PubShare", NoRet: true}},
	"C12": {{Func: "(*sign/dss.DSS).ProcessPartialSig", Sink: `append:\.partials$`, NoRet: true}},
	"C13": {{Func: "share/pvss.VerifyEncShareBatch", Sink: "append:", NoRet: true}, {Func: "share/pvss.DecShareBatch", Sink: "append:", NoRet: true},
		{Func: "share/pvss.VerifyDecShareBatch", Sink: "append:", NoRet: true}},
}

func isAccUpdate(in ssa.Instruction) bool {
	switch x := in.(type) {
	case *ssa.MapUpdate:
		return true
	case *ssa.Call:
		if b, ok := x.Call.Value.(*ssa.Builtin); ok && b.Name() == "append" {
			return true
		}
	case *ssa.Store:
		if _, ok := x.Addr.(*ssa.IndexAddr); ok {
			// element of a slice/array that is not a local scratch array
			if ia := x.Addr.(*ssa.IndexAddr); ia != nil {
				if _, isAlloc := ia.X.(*ssa.Alloc); !isAlloc {
					return true
				}
			}
		}
	}
	return false
}

func AccGate(c *Ctx, cfg, prop string) {
	p := c.Prog(cfg)
	if p == nil {
		return
	}
	for _, s := range accGateFuncs[prop] {
		fn := p.Fn(s.Func)
		if fn == nil || len(fn.Blocks) == 0 {
			c.R.Unk("ACC-GATE", s.Func, "anchor", "", "function not found")
			continue
		}
		sink, err := ParseSink(p, fn, s.Sink)
		if err != nil {
			c.R.Fatalf("ACC-GATE: %v", err)
			continue
		}
		a := apo.Analyze(fn, apo.AcceptSpec{NoRet: true, Sink: sink})
		must := map[string]bool{}
		for _, g := range a.Gates() {
			if g.MustPass {
				must[fmt.Sprintf("%s|%v", g.Cond, g.FailWhen)] = true
			}
		}
		if len(must) == 0 {
			c.R.Unk("ACC-GATE", s.Func, "anchor", p.FnPos(fn), "the designated sink has no must-pass gate")
			continue
		}
		n := 0
		for _, b := range fn.Blocks {
			for _, in := range b.Instrs {
				if !isAccUpdate(in) || sink(in) {
					continue
				}
				n++
				target := in
				ua := apo.Analyze(fn, apo.AcceptSpec{NoRet: true, Sink: func(x ssa.Instruction) bool { return x == target }})
				have := map[string]bool{}
				for _, g := range ua.Gates() {
					if g.MustPass {
						have[fmt.Sprintf("%s|%v", g.Cond, g.FailWhen)] = true
					}
				}
				var missing []string
				for k := range must {
					if !have[k] {
						missing = append(missing, k)
					}
				}
				d := apo.NewDescriber(fn)
				site := "state update " + describeInstr(d, in)
				if len(missing) > 0 {
					c.R.Bad("ACC-GATE", s.Func, site, p.Pos(in.Pos()), fmt.Sprintf("written without %d of the checks that gate the accepted set (e.g. %s)", len(missing), missing[0]))
				} else {
					c.R.Ok("ACC-GATE", s.Func, site, p.Pos(in.Pos()), "behind every must-pass check of the sink", true)
				}
			}
		}
		c.R.Ok("ACC-GATE", s.Func, "all collection updates behind the sink's checks", p.FnPos(fn), fmt.Sprintf("%d other updates, %d must-pass gates", n, len(must)), true)
	}
}

func describeInstr(d *apo.Describer, in ssa.Instruction) string {
	switch x := in.(type) {
	case *ssa.MapUpdate:
		return "map " + d.Val(x.Map)
	case *ssa.Store:
		return "store " + d.Val(x.Addr)
	case *ssa.Call:
		return "append " + d.Val(x.Call.Args[0])
	}
	return "?"
}
