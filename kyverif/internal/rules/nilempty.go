package rules

import (
	"fmt"
	"go/constant"
	"go/token"
	"go/types"
	"sort"
	"strings"

	"golang.org/x/tools/go/ssa"

	"kyverif/internal/core"
)

// APO-NILEMPTY (a contradiction rule): inside one function a slice parameter
// is asked "is it absent?" either by comparing it with nil or by comparing its
// length with zero. A function that uses both forms on the same parameter
// sends a non-nil empty value down different branches at different places
// (`if linkScope != nil` builds the linkage tag, `if len(linkScope) > 0`
// skips its commitment: honest signatures in the empty scope stop verifying).
// Length comparisons against anything but zero are bounds, not absence tests,
// and do not count. Every slice parameter with at least one absence test is
// an obligation.
func NilEmpty(c *Ctx, cfg string, pkgs []string) {
	p := c.Prog(cfg)
	if p == nil {
		return
	}
	n := 0
	for _, fn := range p.ModuleFuncs() {
		pp := core.Short(core.PkgPathOf(fn))
		ok := false
		for _, x := range pkgs {
			if pp == x || strings.HasPrefix(pp, x+"/") {
				ok = true
			}
		}
		if !ok || len(fn.Blocks) == 0 || fn.Synthetic != "" {
			continue
		}
		type forms struct{ nilT, lenT []token.Pos }
		by := map[*ssa.Parameter]*forms{}
		get := func(v ssa.Value) *forms {
			par, ok := v.(*ssa.Parameter)
			if !ok {
				return nil
			}
			if _, isSl := par.Type().Underlying().(*types.Slice); !isSl {
				return nil
			}
			if by[par] == nil {
				by[par] = &forms{}
			}
			return by[par]
		}
		isZero := func(v ssa.Value) bool {
			k, ok := v.(*ssa.Const)
			if !ok || k.Value == nil || k.Value.Kind() != constant.Int {
				return false
			}
			x, exact := constant.Int64Val(k.Value)
			return exact && x == 0
		}
		isOne := func(v ssa.Value) bool {
			k, ok := v.(*ssa.Const)
			if !ok || k.Value == nil || k.Value.Kind() != constant.Int {
				return false
			}
			x, exact := constant.Int64Val(k.Value)
			return exact && x == 1
		}
		lenOf := func(v ssa.Value) ssa.Value {
			call, ok := v.(*ssa.Call)
			if !ok {
				return nil
			}
			if b, ok := call.Call.Value.(*ssa.Builtin); ok && b.Name() == "len" && len(call.Call.Args) == 1 {
				return call.Call.Args[0]
			}
			return nil
		}
		for _, b := range fn.Blocks {
			for _, in := range b.Instrs {
				bo, ok := in.(*ssa.BinOp)
				if !ok {
					continue
				}
				switch bo.Op {
				case token.EQL, token.NEQ:
					if k, isC := bo.Y.(*ssa.Const); isC && k.IsNil() {
						if f := get(bo.X); f != nil {
							f.nilT = append(f.nilT, bo.Pos())
						}
					}
					if k, isC := bo.X.(*ssa.Const); isC && k.IsNil() {
						if f := get(bo.Y); f != nil {
							f.nilT = append(f.nilT, bo.Pos())
						}
					}
				}
				// len(p) ==/!=/>/<= 0, 0 </>= len(p), len(p) < 1, len(p) >= 1
				var arg ssa.Value
				switch bo.Op {
				case token.EQL, token.NEQ, token.GTR, token.LEQ:
					if isZero(bo.Y) {
						arg = lenOf(bo.X)
					}
				}
				if arg == nil {
					switch bo.Op {
					case token.EQL, token.NEQ, token.LSS, token.GEQ:
						if isZero(bo.X) {
							arg = lenOf(bo.Y)
						}
					}
				}
				if arg == nil && (bo.Op == token.LSS || bo.Op == token.GEQ) && isOne(bo.Y) {
					arg = lenOf(bo.X)
				}
				if arg != nil {
					if f := get(arg); f != nil {
						f.lenT = append(f.lenT, bo.Pos())
					}
				}
			}
		}
		var pars []*ssa.Parameter
		for par := range by {
			pars = append(pars, par)
		}
		sort.Slice(pars, func(i, j int) bool { return pars[i].Name() < pars[j].Name() })
		for _, par := range pars {
			f := by[par]
			if len(f.nilT)+len(f.lenT) == 0 {
				continue
			}
			n++
			site := "parameter " + par.Name()
			if len(f.nilT) > 0 && len(f.lenT) > 0 {
				c.R.Bad("APO-NILEMPTY", shortFn(fn), site, p.Pos(f.lenT[0]),
					fmt.Sprintf("absence of this slice is tested against nil (%s) and against length zero (%s) in the same function: a non-nil empty value takes the 'present' branch at one place and the 'absent' branch at the other",
						p.Pos(f.nilT[0]), p.Pos(f.lenT[0])))
				continue
			}
			form := "nil"
			if len(f.lenT) > 0 {
				form = "length zero"
			}
			c.R.Ok("APO-NILEMPTY", shortFn(fn), site, p.FnPos(fn), fmt.Sprintf("%d absence test(s), all against %s", len(f.nilT)+len(f.lenT), form), true)
		}
	}
	c.R.Ok("APO-NILEMPTY", "module", fmt.Sprintf("packages %s", strings.Join(pkgs, ",")), "", fmt.Sprintf("%d slice parameters with absence tests examined", n), false)
}
