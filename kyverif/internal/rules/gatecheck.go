package rules

import (
	"encoding/json"
	"fmt"
	"os"
	"path/filepath"
	"regexp"
	"sort"
	"strings"

	"golang.org/x/tools/go/ssa"

	"kyverif/internal/apo"
	"kyverif/internal/core"
)

// GateSpec names a function whose accept outcomes are gated. Sink (optional)
// designates state mutations that count as accept outcomes:
//
//	call:<regexp on callee>[@<regexp on whole call descriptor>]
//	store:<regexp on address descriptor>[=<regexp on stored value descriptor>]
//	mapupdate:<regexp on map descriptor>
//	append:<regexp on descriptor of the slice appended to>
//
// With NoRet the returns of the function are not accept outcomes.
type GateSpec struct {
	Func  string
	Sink  string
	NoRet bool
	Cfg   string // configuration (default "default")
	Block string // same syntax as Sink: instructions that discharge a path (must-pass-through)
	// Exact: a NEW must-pass gate of the sink is reported too (the accumulate-valid-inputs functions of
	// recovery: an added skip condition refuses inputs that were accepted before; likewise for bytes
	// mixed into a seed and for default-deny initialisations)
	Exact bool
}

type FrozenGate struct {
	Cond     string   `json:"cond"`
	FailWhen bool     `json:"fail_when"`
	MustPass bool     `json:"must_pass"`
	Deps     []string `json:"deps,omitempty"`
	Once     bool     `json:"once,omitempty"`
	Why      string   `json:"why,omitempty"`
}

type FuncTable struct {
	Func    string       `json:"func"`
	Sink    string       `json:"sink,omitempty"`
	NoRet   bool         `json:"no_ret,omitempty"`
	Cfg     string       `json:"cfg,omitempty"`
	Block   string       `json:"block,omitempty"`
	Accepts int          `json:"accept_sites"`
	Gates   []FrozenGate `json:"gates"`
	Bounds  []string     `json:"bounds,omitempty"`
	Loops   []string     `json:"full_loops,omitempty"`
	// Required lists gates that the property demands but that are not (yet)
	// present in the tree; they are checked exactly like frozen gates and are
	// how a missing check is reported.
}

func (s GateSpec) key() string { return s.Func + "|" + s.Sink + "|" + s.Cfg + "|" + s.Block }

func tablePath(prop string) string {
	return filepath.Join(core.VerifDir(), "tables", "gates", prop+".json")
}

func LoadTables(prop string) ([]FuncTable, error) {
	b, err := os.ReadFile(tablePath(prop))
	if err != nil {
		return nil, err
	}
	var t []FuncTable
	if err := json.Unmarshal(b, &t); err != nil {
		return nil, err
	}
	return t, nil
}

func ParseSink(p *core.Prog, fn *ssa.Function, spec string) (apo.Sink, error) {
	if spec == "" {
		return nil, nil
	}
	kind, pat, ok := strings.Cut(spec, ":")
	if !ok {
		return nil, fmt.Errorf("bad sink %q", spec)
	}
	d := apo.NewDescriber(fn)
	switch kind {
	case "call":
		cpat, dpat, _ := strings.Cut(pat, "@")
		cre, err := regexp.Compile(cpat)
		if err != nil {
			return nil, err
		}
		var dre *regexp.Regexp
		if dpat != "" {
			if dre, err = regexp.Compile(dpat); err != nil {
				return nil, err
			}
		}
		return func(in ssa.Instruction) bool {
			ci, ok := in.(ssa.CallInstruction)
			if !ok {
				return false
			}
			if !cre.MatchString(apo.CalleeName(ci.Common())) {
				return false
			}
			if dre != nil {
				return dre.MatchString(d.CallDesc(ci.Common()))
			}
			return true
		}, nil
	case "store":
		apat, vpat, _ := strings.Cut(pat, "=")
		are, err := regexp.Compile(apat)
		if err != nil {
			return nil, err
		}
		var vre *regexp.Regexp
		if vpat != "" {
			if vre, err = regexp.Compile(vpat); err != nil {
				return nil, err
			}
		}
		return func(in ssa.Instruction) bool {
			st, ok := in.(*ssa.Store)
			if !ok || !are.MatchString(d.Val(st.Addr)) {
				return false
			}
			return vre == nil || vre.MatchString(d.Val(st.Val))
		}, nil
	case "mapupdate":
		re, err := regexp.Compile(pat)
		if err != nil {
			return nil, err
		}
		return func(in ssa.Instruction) bool {
			mu, ok := in.(*ssa.MapUpdate)
			return ok && re.MatchString(d.Val(mu.Map))
		}, nil
	case "append":
		re, err := regexp.Compile(pat)
		if err != nil {
			return nil, err
		}
		return func(in ssa.Instruction) bool {
			c, ok := in.(*ssa.Call)
			if !ok {
				return false
			}
			b, ok := c.Call.Value.(*ssa.Builtin)
			return ok && b.Name() == "append" && re.MatchString(d.Val(c.Call.Args[0]))
		}, nil
	}
	return nil, fmt.Errorf("bad sink kind %q", kind)
}

// computeGates analyses one function under a spec.
func computeGates(c *Ctx, s GateSpec) (*apo.FnAnalysis, []apo.Gate, int, error) {
	a, g, n, err := computeGates0(c, s)
	return a, g, n, err
}

func computeGates0(c *Ctx, s GateSpec) (*apo.FnAnalysis, []apo.Gate, int, error) {
	cfg := s.Cfg
	if cfg == "" {
		cfg = "default"
	}
	p := c.Prog(cfg)
	if p == nil {
		return nil, nil, 0, fmt.Errorf("configuration %s unavailable", cfg)
	}
	fn := p.Fn(s.Func)
	if fn == nil || len(fn.Blocks) == 0 {
		return nil, nil, 0, fmt.Errorf("function %s not found in configuration %s", s.Func, cfg)
	}
	sink, err := ParseSink(p, fn, s.Sink)
	if err != nil {
		return nil, nil, 0, err
	}
	block, err := ParseSink(p, fn, s.Block)
	if err != nil {
		return nil, nil, 0, err
	}
	// a sink that moved into a stage helper (a long function turned into a driver calling unexported
	// stages): the call of the helper is the sink, and the helper's own conditions on it count too
	type inner struct {
		call ssa.CallInstruction
		h    *ssa.Function
	}
	var inners []inner
	if sink != nil && s.Sink != "" {
		direct := sink
		helperHasSink := func(h *ssa.Function) bool {
			hs, err := ParseSink(p, h, s.Sink)
			if err != nil || hs == nil {
				return false
			}
			for _, b := range h.Blocks {
				for _, in := range b.Instrs {
					if hs(in) {
						return true
					}
				}
			}
			return false
		}
		memo := map[*ssa.Function]bool{}
		sink = func(in ssa.Instruction) bool {
			if direct(in) {
				return true
			}
			ci, ok := in.(ssa.CallInstruction)
			if !ok || ci.Common().IsInvoke() {
				return false
			}
			h := ci.Common().StaticCallee()
			if h == nil || h == fn || !apo.Inlinable(h) {
				return false
			}
			v, ok := memo[h]
			if !ok {
				v = helperHasSink(h)
				memo[h] = v
			}
			return v
		}
		for _, b := range fn.Blocks {
			for _, in := range b.Instrs {
				if !direct(in) && sink(in) {
					inners = append(inners, inner{in.(ssa.CallInstruction), in.(ssa.CallInstruction).Common().StaticCallee()})
				}
			}
		}
	}
	a := apo.Analyze(fn, apo.AcceptSpec{NoRet: s.NoRet, Sink: sink, Block: block})
	a.Deps = apo.NewDepAnalysis(fn, c.Sum[cfg].Summary)
	gates := a.Gates()
	for _, in := range inners {
		hs, _ := ParseSink(p, in.h, s.Sink)
		ha := apo.Analyze(in.h, apo.AcceptSpec{NoRet: true, Sink: hs})
		var args []string
		for _, arg := range in.call.Common().Args {
			args = append(args, a.D.Val(arg))
		}
		have := map[string]bool{}
		for _, g := range gates {
			have[fmt.Sprintf("%s|%v", g.Cond, g.FailWhen)] = true
		}
		for _, hg := range ha.Gates() {
			hg.Cond = apo.SubstParams(hg.Cond, args)
			hg.Pos = in.call.Pos()
			hg.MustPass = hg.MustPass && len(inners) == 1 && a.AcceptCount() == 1
			if !have[fmt.Sprintf("%s|%v", hg.Cond, hg.FailWhen)] {
				gates = append(gates, hg)
			}
		}
	}
	sort.SliceStable(gates, func(i, j int) bool {
		if gates[i].Cond != gates[j].Cond {
			return gates[i].Cond < gates[j].Cond
		}
		return !gates[i].FailWhen && gates[j].FailWhen
	})
	return a, gates, a.AcceptCount(), nil
}

// GenGates writes the table of a property from the current tree.
func GenGates(c *Ctx, prop string, specs []GateSpec) error {
	old, _ := LoadTables(prop)
	why := map[string]string{}
	for _, ft := range old {
		for _, g := range ft.Gates {
			if g.Why != "" {
				why[ft.Func+"|"+ft.Sink+"|"+g.Cond] = g.Why
			}
		}
	}
	var out []FuncTable
	for _, s := range specs {
		an, gates, nacc, err := computeGates(c, s)
		if err != nil {
			return err
		}
		ft := FuncTable{Func: s.Func, Sink: s.Sink, NoRet: s.NoRet, Cfg: s.Cfg, Block: s.Block, Accepts: nacc}
		for _, g := range gates {
			ft.Gates = append(ft.Gates, FrozenGate{Cond: g.Cond, FailWhen: g.FailWhen, MustPass: g.MustPass, Deps: g.Deps, Once: g.Once,
				Why: why[s.Func+"|"+s.Sink+"|"+g.Cond]})
		}
		if s.Sink == "" && s.Block == "" {
			ft.Bounds = an.Bounds()
			ft.Loops = an.FullLoops()
		}
		out = append(out, ft)
	}
	b, _ := json.MarshalIndent(out, "", " ")
	os.MkdirAll(filepath.Dir(tablePath(prop)), 0o755)
	return os.WriteFile(tablePath(prop), append(b, '\n'), 0o644)
}

// CheckGates verifies every frozen gate of the property's table on the
// current tree: the gate still exists (same canonical condition), still fails
// closed with the same polarity, still lies on every accepting path if it did,
// and its condition still depends on every root it depended on.
func CheckGates(c *Ctx, prop string, specs []GateSpec) {
	tables, err := LoadTables(prop)
	if err != nil {
		c.R.Fatalf("gate table for %s: %v", prop, err)
		return
	}
	byKey := map[string]FuncTable{}
	for _, t := range tables {
		byKey[t.Func+"|"+t.Sink+"|"+t.Cfg+"|"+t.Block] = t
	}
	for _, s := range specs {
		ft, ok := byKey[s.key()]
		if !ok {
			c.R.Fatalf("no frozen table for %s (sink %q); run gen-gates", s.Func, s.Sink)
			continue
		}
		a, gates, nacc, err := computeGates(c, s)
		if err != nil {
			c.R.Unk("APO-ANCHOR", s.Func, "sink="+s.Sink, "", err.Error())
			continue
		}
		p := c.Prog(cfgOf(s))
		pos := p.FnPos(a.Fn)
		c.R.CallSites += countCalls(a.Fn)
		if nacc == 0 {
			c.R.Bad("APO-ANCHOR", s.Func, "sink="+s.Sink, pos, "no accept outcome found (sink pattern matches nothing or every return fails)")
			continue
		}
		c.R.Ok("APO-ANCHOR", s.Func, "sink="+s.Sink, pos, fmt.Sprintf("%d accept outcome(s), %d gates found", nacc, len(gates)), false)
		if len(ft.Bounds) > 0 {
			have := map[string]bool{}
			for _, b := range a.Bounds() {
				have[b] = true
			}
			curB := a.Bounds()
			for _, b := range ft.Bounds {
				b = strings.TrimPrefix(b, "!")
				if !have[b] {
					for _, cb := range curB {
						if wildMatch(b, cb) {
							have[b] = true
						}
					}
				}
				if have[b] {
					c.R.Ok("APO-BOUND", s.Func, b, pos, "length/index/threshold comparison unchanged (operands and strictness)", true)
				} else {
					c.R.Bad("APO-BOUND", s.Func, b, pos, "a length/index/threshold comparison of this function changed its operands or strictness (or disappeared)")
				}
			}
		}
		if s.Exact {
			frozen := map[string]bool{}
			for _, fg := range ft.Gates {
				frozen[fmt.Sprintf("%s|%v", fg.Cond, fg.FailWhen)] = true
			}
			for _, g := range gates {
				if !g.MustPass {
					continue
				}
				k := fmt.Sprintf("%s|%v", g.Cond, g.FailWhen)
				known := frozen[k]
				if !known {
					for _, fg := range ft.Gates {
						if fg.FailWhen == g.FailWhen && wildMatch(fg.Cond, g.Cond) {
							known = true
						}
					}
				}
				if !known {
					c.R.Bad("APO-EXACT", s.Func, fmt.Sprintf("sink=%s new gate fail_when=%v cond=%s", s.Sink, g.FailWhen, g.Cond), p.Pos(g.Pos),
						"a new condition now guards this sink: inputs that reached it before (valid shares of a recovery routine, bytes mixed into a seed, a default-deny initialisation) may now be left out")
				}
			}
			c.R.Ok("APO-EXACT", s.Func, "sink="+s.Sink+" no new rejection condition", pos, "", true)
		}
		if len(ft.Loops) > 0 {
			frozenN, curN := 0, 0
			fmt.Sscanf(ft.Loops[0], "early-exits<=%d", &frozenN)
			fmt.Sscanf(a.FullLoops()[0], "early-exits<=%d", &curN)
			if curN <= frozenN {
				c.R.Ok("APO-LOOP", s.Func, ft.Loops[0], pos, fmt.Sprintf("%d break-like loop exits", curN), true)
			} else {
				c.R.Bad("APO-LOOP", s.Func, ft.Loops[0], pos, fmt.Sprintf("the loops of this function now have %d break-like exits (were %d): some elements may be left unexamined", curN, frozenN))
			}
		}
		cur := map[string]apo.Gate{}
		for _, g := range gates {
			cur[fmt.Sprintf("%s|%v", g.Cond, g.FailWhen)] = g
		}
		for _, fg := range ft.Gates {
			gsite := fmt.Sprintf("sink=%s fail_when=%v cond=%s", s.Sink, fg.FailWhen, fg.Cond)
			if s.Block != "" {
				gsite = "through=" + s.Block + " " + gsite
			}
			g, ok := cur[fmt.Sprintf("%s|%v", fg.Cond, fg.FailWhen)]
			if !ok {
				// descriptors are depth-limited: "…" stands for an elided subterm
				for _, cg := range gates {
					if cg.FailWhen == fg.FailWhen && wildMatch(fg.Cond, cg.Cond) {
						g, ok = cg, true
						break
					}
				}
			}
			if !ok {
				// one check on a merged value (`Contains(phi{a|b}, phi{x|y})`) and the same check made on each
				// branch (`Contains(a, x)` here, `Contains(b, y)` there) are the same checks
				g, ok = phiSplitMatch(fg, gates, a)
			}
			if !ok {
				detail := "required check no longer gates the accept outcome: it is absent, its result is unused, or an accept outcome is reachable when it fails"
				if og, ok2 := cur[fmt.Sprintf("%s|%v", fg.Cond, !fg.FailWhen)]; ok2 {
					detail = "polarity inverted: the accept outcome is now reachable only when the check FAILS (at " + p.Pos(og.Pos) + ")"
				}
				if fg.Why != "" {
					detail += " [" + fg.Why + "]"
				}
				c.R.Bad("APO-GATE", s.Func, gsite, pos, detail)
				continue
			}
			if fg.Once && !g.Once {
				c.R.Bad("APO-GATE", s.Func, gsite, p.Pos(g.Pos), "a single failure of this check is no longer fatal: a failing evaluation can be overwritten by a later passing one (e.g. only the last loop iteration counts)")
				continue
			}
			if fg.MustPass && !g.MustPass {
				c.R.Bad("APO-GATE", s.Func, gsite, p.Pos(g.Pos), "check is no longer on every accepting path (an accept outcome is reachable without evaluating it)")
				continue
			}
			c.R.Ok("APO-GATE", s.Func, gsite, p.Pos(g.Pos), "fails closed; must_pass="+fmt.Sprint(g.MustPass), true)
			if len(fg.Deps) > 0 {
				have := map[string]bool{}
				for _, d := range g.Deps {
					have[d] = true
				}
				var lost []string
				for _, d := range fg.Deps {
					// a dependence on the whole parameter covers a dependence on one of its fields
					whole := d
					if i := strings.Index(d, "."); i > 0 {
						whole = d[:i]
					}
					part := false
					if !strings.Contains(d, ".") {
						// frozen on the whole parameter (imprecise at the time): a dependence on a part of it is that dependence
						for cd := range have {
							if strings.HasPrefix(cd, d+".") {
								part = true
							}
						}
					}
					if !have[d] && !have[whole] && !part {
						lost = append(lost, d)
					}
				}
				if len(lost) > 0 {
					c.R.Bad("APO-DEP", s.Func, gsite, p.Pos(g.Pos), "checked value no longer depends on "+strings.Join(lost, ", "))
				} else {
					c.R.Ok("APO-DEP", s.Func, gsite, p.Pos(g.Pos), "depends on "+strings.Join(fg.Deps, ","), true)
				}
			}
		}
	}
	// every table entry must be covered by a spec (no stale entries silently ignored)
	specKeys := map[string]bool{}
	for _, s := range specs {
		specKeys[s.key()] = true
	}
	var stale []string
	for k := range byKey {
		if !specKeys[k] {
			stale = append(stale, k)
		}
	}
	sort.Strings(stale)
	for _, k := range stale {
		c.R.Fatalf("frozen table entry %s has no rule instance", k)
	}
}

func cfgOf(s GateSpec) string {
	if s.Cfg == "" {
		return "default"
	}
	return s.Cfg
}

func countCalls(fn *ssa.Function) int {
	n := 0
	for _, b := range fn.Blocks {
		for _, in := range b.Instrs {
			if _, ok := in.(ssa.CallInstruction); ok {
				n++
			}
		}
	}
	return n
}

// wildMatch: two depth-limited descriptors agree when they are equal up to
// the elided subterms ("…" on either side matches any text).
func wildMatch(a, b string) bool {
	if a == b {
		return true
	}
	return wildRe(a).MatchString(b) || wildRe(b).MatchString(a)
}

var wildCache = map[string]*regexp.Regexp{}

func wildRe(s string) *regexp.Regexp {
	if r, ok := wildCache[s]; ok {
		return r
	}
	parts := strings.Split(s, "…")
	for i := range parts {
		parts[i] = regexp.QuoteMeta(parts[i])
	}
	r := regexp.MustCompile("^" + strings.Join(parts, ".*") + "$")
	wildCache[s] = r
	return r
}

// phiExpand lists the phi-free readings of a descriptor (every `phi{a|b}`
// replaced by one of its alternatives), with the alternative chosen per group.
func phiExpand(s string) (out []string, choices [][]int, groups int) {
	type res struct {
		s string
		c []int
	}
	cur := []res{{"", nil}}
	i := 0
	for i < len(s) {
		j := strings.Index(s[i:], "phi{")
		if j < 0 {
			for k := range cur {
				cur[k].s += s[i:]
			}
			break
		}
		j += i
		// matching brace
		depth, k := 0, j+3
		end := -1
		for ; k < len(s); k++ {
			if s[k] == '{' {
				depth++
			} else if s[k] == '}' {
				depth--
				if depth == 0 {
					end = k
					break
				}
			}
		}
		if end < 0 {
			for k := range cur {
				cur[k].s += s[i:]
			}
			break
		}
		// split alternatives at top level
		body := s[j+4 : end]
		var alts []string
		d, st := 0, 0
		for k := 0; k < len(body); k++ {
			switch body[k] {
			case '{', '(', '[':
				d++
			case '}', ')', ']':
				d--
			case '|':
				if d == 0 {
					alts = append(alts, body[st:k])
					st = k + 1
				}
			}
		}
		alts = append(alts, body[st:])
		var next []res
		for _, r := range cur {
			for ai, a := range alts {
				if len(next) >= 64 {
					break
				}
				// nested phis inside an alternative are expanded as text of that alternative only once
				next = append(next, res{r.s + s[i:j] + a, append(append([]int(nil), r.c...), ai)})
			}
		}
		cur = next
		groups++
		i = end + 1
	}
	for _, r := range cur {
		out = append(out, r.s)
		choices = append(choices, r.c)
	}
	return
}

// phiSplitMatch: the frozen gate is matched by a set of current gates that
// together cover every alternative of its merged operands (or, the other way
// round, by one current gate on a merged value that has the frozen condition
// among its readings).
func phiSplitMatch(fg FrozenGate, gates []apo.Gate, a *apo.FnAnalysis) (apo.Gate, bool) {
	fe, fc, groups := phiExpand(fg.Cond)
	if groups == 0 {
		for _, cg := range gates {
			if cg.FailWhen != fg.FailWhen || !strings.Contains(cg.Cond, "phi{") {
				continue
			}
			ce, _, _ := phiExpand(cg.Cond)
			for _, e := range ce {
				if wildMatch(fg.Cond, e) {
					return cg, true
				}
			}
		}
		return apo.Gate{}, false
	}
	covered := map[[2]int]bool{}
	var used []apo.Gate
	for _, cg := range gates {
		if cg.FailWhen != fg.FailWhen {
			continue
		}
		ce, _, _ := phiExpand(cg.Cond)
		hit := false
		for k, e := range fe {
			for _, x := range ce {
				if wildMatch(e, x) {
					hit = true
					for gi, ai := range fc[k] {
						covered[[2]int{gi, ai}] = true
					}
				}
			}
		}
		if hit {
			used = append(used, cg)
		}
	}
	if len(used) == 0 {
		return apo.Gate{}, false
	}
	// every alternative of every merged operand must be covered
	need := map[[2]int]bool{}
	for _, c := range fc {
		for gi, ai := range c {
			need[[2]int{gi, ai}] = true
		}
	}
	for k := range need {
		if !covered[k] {
			return apo.Gate{}, false
		}
	}
	g := used[0]
	g.Once, g.MustPass = true, len(used) == 1 && used[0].MustPass
	for _, u := range used {
		g.Once = g.Once && u.Once
		g.Deps = append(g.Deps, u.Deps...)
	}
	if !g.MustPass {
		g.MustPass = a.JointMust(used)
	}
	return g, true
}
