package rules

import (
	"fmt"
	"go/types"
	"regexp"
	"strings"

	"golang.org/x/tools/go/ssa"

	"kyverif/internal/apo"
	"kyverif/internal/core"
)

// APO-ERRDROP: no error (or boolean verdict) produced by a decode / verify /
// recover / decrypt-class callee is discarded anywhere in the listed packages.
// This is not errcheck: only callees of that class are considered, resolved by
// callee identity; the accepted discards are an explicit table.
var errClass = regexp.MustCompile(`(\.|\))(Unmarshal\w*|Decode\w*|Verify\w*|Recover\w*|Decrypt\w*|Open|SetBytesWithCheck|ReadFull|Read|Check|ValidatePairing|ProcessEncryptedDeal|decryptDeal|FromCompressed|FromBytes|IsOnCurve|Valid)$`)

var errDropAllowed = map[string]string{
	"pairing/bn254.newGFpFromBase10|(*pairing/bn254.gfP).Unmarshal": "package-level curve constants, reduced modulo p on the line before: the range error cannot occur",
	"pairing/bn254.hashToField|(*pairing/bn254.gfP).Unmarshal": "input was reduced modulo p just before: the range error cannot occur",
}

func ErrDrop(c *Ctx, cfg string, pkgs []string) {
	p := c.Prog(cfg)
	if p == nil {
		return
	}
	n := 0
	for _, fn := range p.ModuleFuncs() {
		pp := core.Short(core.PkgPathOf(fn))
		ok := false
		for _, x := range pkgs {
			if pp == x || strings.HasPrefix(pp, x+"/") {
				ok = true
			}
		}
		if !ok {
			continue
		}
		for _, b := range fn.Blocks {
			for _, in := range b.Instrs {
				call, ok := in.(*ssa.Call)
				if !ok {
					continue
				}
				name := apo.CalleeName(&call.Call)
				if name == "" || !errClass.MatchString(name) {
					continue
				}
				if strings.HasSuffix(name, ".Read") && !strings.Contains(name, "io.Reader") && !strings.Contains(name, "Suite") {
					continue
				}
				res := call.Call.Signature().Results()
				idx := -1
				for i := 0; i < res.Len(); i++ {
					t := res.At(i).Type()
					if types.Identical(t, types.Universe.Lookup("error").Type()) {
						idx = i
					} else if bt, ok := t.Underlying().(*types.Basic); ok && bt.Info()&types.IsBoolean != 0 && idx < 0 {
						idx = i
					}
				}
				if idx < 0 {
					continue
				}
				n++
				used := false
				if refs := call.Referrers(); refs != nil {
					for _, r := range *refs {
						if res.Len() == 1 {
							if _, isDbg := r.(*ssa.DebugRef); !isDbg {
								used = true
							}
						} else if ex, ok := r.(*ssa.Extract); ok && ex.Index == idx {
							if er := ex.Referrers(); er != nil && len(*er) > 0 {
								used = true
							}
						}
					}
				}
				site := fmt.Sprintf("verdict of %s", name)
				if used {
					c.R.Ok("APO-ERRDROP", shortFn(fn), site, p.Pos(call.Pos()), "", false)
					continue
				}
				if why, ok := errDropAllowed[shortFn(fn)+"|"+name]; ok {
					c.R.Ok("APO-ERRDROP", shortFn(fn), site+" (excepted)", p.Pos(call.Pos()), why, false)
					continue
				}
				c.R.Bad("APO-ERRDROP", shortFn(fn), site, p.Pos(call.Pos()), "the error / verdict of a decode-verify-recover-class call is discarded")
			}
		}
	}
	c.R.CallSites += n
	if n == 0 {
		c.R.Fatalf("APO-ERRDROP matched no call site")
	}
}
