package rules

import (
	"encoding/json"
	"os"
	"path/filepath"
	"sort"
	"strings"

	"golang.org/x/tools/go/ssa"

	"kyverif/internal/core"
	"kyverif/internal/efx"
)

// MUST-WRITE: the regions of its parameters a function writes on every path
// to a normal return. Frozen from the tree; a mutator/decoder/field routine
// that stops initialising part of its output on some path (an early return
// before the result is set, a coordinate left stale in one branch) loses a
// region. Decides "output fully assigned on all paths", not its value.
type MustWriteEntry struct {
	Func    string   `json:"func"`
	Regions []string `json:"regions"`
}

// ctorTargets (SH-CTOR): constructors whose result must have every table
// other methods index assigned on every successful return.
var ctorTargets = map[string][]string{
	"C09": {"sign/bdn.NewMask", "sign/cosi.NewMask"},
	"C10": {"share/vss/pedersen.NewDealer", "share/vss/pedersen.NewVerifier", "share/vss/pedersen.newAggregator", "share/vss/pedersen.NewEmptyAggregator",
		"share/vss/rabin.NewDealer", "share/vss/rabin.NewVerifier", "share/vss/rabin.newAggregator"},
	"C11": {"share/dkg/pedersen.NewDistKeyHandler", "share/dkg/rabin.NewDistKeyGenerator",
		"share/dkg/pedersen.NewProtocol", "share/dkg/pedersen.newSet", "share/dkg/pedersen.NewStatusMatrix"},
	"C12": {"sign/dss.NewDSS"},
	"C07": {"share.NewPriPoly", "share.CoefficientsToPriPoly", "share.NewPubPoly", "(*share.PriPoly).Commit"},
	"C08": {"sign/eddsa.NewEdDSA"},
	"C13": {"proof/dleq.NewDLEQProof"},
	"C14": {"proof.newHashProver", "proof.newHashVerifier"},
	"C19": {"util/random.New"},
}

var mustWritePkgs = map[string][]string{
	"C01": {"group/edwards25519", "group/edwards25519vartime", "group/p256", "group/mod", "pairing/bn256", "pairing/bn254",
		"pairing/bls12381/kilic", "pairing/bls12381/circl", "pairing/bls12381/gnark"},
	// the big-integer layer under mod.Int and the scalar types: every setter assigns its receiver on every
	// returning path (an early return for "nothing to do" leaves the previous value in place)
	"C02": {"compatible", "compatible/compatiblemod", "group/mod", "pairing/bls12381/circl", "pairing/bls12381/gnark", "pairing/bls12381/kilic"},
}

func mustWritePath(prop string) string {
	return filepath.Join(core.VerifDir(), "tables", "mustwrite", prop+".json")
}

func mustWriteTargets(c *Ctx, p *core.Prog, prop string) []*ssa.Function {
	var out []*ssa.Function
	switch prop {
	case "C09", "C10", "C11", "C12", "C07", "C08", "C13":
		return nil
	case "C14":
		// per-verifier channels and the proof's variable tables are set up on every path
		for _, n := range []string{"(*proof.deniableVerifier).start", "(*proof.proof).init", "(*proof.deniableProver).run"} {
			if fn := p.Fn(n); fn != nil {
				out = append(out, fn)
			}
		}
	case "C15":
		for _, n := range []string{"(*shuffle.PairShuffle).Prove", "(*shuffle.SimpleShuffle).Prove", "(*shuffle.PairShuffle).Init", "(*shuffle.SimpleShuffle).Init"} {
			if fn := p.Fn(n); fn != nil {
				out = append(out, fn)
			}
		}
	case "C19":
		for _, it := range c.implTypes(p) {
			if it.Kind != "xof" {
				continue
			}
			for _, m := range []string{"Read", "Write", "XORKeyStream", "Reseed", "Reset", "Clone"} {
				if fn := p.Method(it.Named, m); fn != nil && len(fn.Blocks) > 0 && fn.Synthetic == "" {
					out = append(out, fn)
				}
			}
		}
		for _, n := range []string{"xof/blake2xb.New", "xof/blake2xs.New", "xof/keccak.New", "(*util/random.randstream).XORKeyStream"} {
			if fn := p.Fn(n); fn != nil {
				out = append(out, fn)
			}
		}
	case "C04":
		for _, it := range c.implTypes(p) {
			if it.Kind == "xof" {
				continue
			}
			for _, m := range []string{"UnmarshalBinary", "UnmarshalFrom"} {
				if fn := p.Method(it.Named, m); fn != nil && len(fn.Blocks) > 0 && fn.Synthetic == "" {
					out = append(out, fn)
				}
			}
		}
		for _, n := range []string{"(*group/edwards25519.extendedGroupElement).FromBytes", "(*group/edwards25519vartime.curve).decodePoint",
			"(*pairing/bn254.gfP).Unmarshal", "(*pairing/bn256.gfP).Unmarshal"} {
			if fn := p.Fn(n); fn != nil {
				out = append(out, fn)
			}
		}
	default:
		pk := mustWritePkgs[prop]
		for _, fn := range p.ModuleFuncs() {
			if fn.Synthetic != "" || fn.Parent() != nil || len(fn.Params) == 0 {
				continue
			}
			pp := core.Short(core.PkgPathOf(fn))
			ok := false
			for _, x := range pk {
				if pp == x {
					ok = true
				}
			}
			if !ok || strings.HasPrefix(fn.Name(), "init") {
				continue
			}
			out = append(out, fn)
		}
	}
	sort.Slice(out, func(i, j int) bool { return out[i].String() < out[j].String() })
	return out
}

func computeMustWrites(c *Ctx, prop string) ([]MustWriteEntry, map[string]string) {
	p := c.Prog("default")
	if p == nil {
		return nil, nil
	}
	an := efx.NewAnalyzer(p)
	var out []MustWriteEntry
	pos := map[string]string{}
	for _, name := range ctorTargets[prop] {
		fn := p.Fn(name)
		if fn == nil || len(fn.Blocks) == 0 {
			continue
		}
		mw := an.MustWritesResult(fn)
		out = append(out, MustWriteEntry{Func: name, Regions: mw.Sorted()})
		pos[name] = p.FnPos(fn)
	}
	for _, fn := range mustWriteTargets(c, p, prop) {
		if !hasReturn(fn) {
			continue
		}
		mw := an.MustWrites(fn)
		if len(mw) == 0 {
			continue
		}
		out = append(out, MustWriteEntry{Func: shortFn(fn), Regions: mw.Sorted()})
		pos[shortFn(fn)] = p.FnPos(fn)
	}
	return out, pos
}

func GenMustWrite(c *Ctx, prop string) (int, error) {
	ents, _ := computeMustWrites(c, prop)
	b, _ := json.MarshalIndent(ents, "", " ")
	os.MkdirAll(filepath.Dir(mustWritePath(prop)), 0o755)
	return len(ents), os.WriteFile(mustWritePath(prop), append(b, '\n'), 0o644)
}

func CheckMustWrite(c *Ctx, prop string) {
	b, err := os.ReadFile(mustWritePath(prop))
	if err != nil {
		c.R.Fatalf("must-write table for %s: %v", prop, err)
		return
	}
	var frozen []MustWriteEntry
	if err := json.Unmarshal(b, &frozen); err != nil {
		c.R.Fatalf("must-write table for %s: %v", prop, err)
		return
	}
	cur, pos := computeMustWrites(c, prop)
	curBy := map[string]efx.PathSet{}
	for _, e := range cur {
		ps := efx.PathSet{}
		for _, r := range e.Regions {
			ps[efx.Path(r)] = true
		}
		curBy[e.Func] = ps
	}
	p := c.Prog("default")
	for _, e := range frozen {
		fn := p.Fn(e.Func)
		if fn == nil {
			c.R.Unk("MUST-WRITE", e.Func, "anchor", "", "function not found")
			continue
		}
		have := curBy[e.Func]
		ps := pos[e.Func]
		if ps == "" {
			ps = p.FnPos(fn)
		}
		for _, r := range e.Regions {
			ok := false
			for w := range have {
				if efx.Under(efx.Path(r), w) {
					ok = true
				}
			}
			if ok {
				c.R.Ok("MUST-WRITE", e.Func, r, ps, "written on every path to a return", true)
			} else {
				c.R.Bad("MUST-WRITE", e.Func, r, ps, "some path to a return no longer writes this part of the output (result left stale or uninitialised on that path)")
			}
		}
	}
}
