package rules

import (
	"fmt"
	"go/constant"
	"go/token"
	"go/types"

	"golang.org/x/tools/go/ssa"

	"kyverif/internal/core"
)

// constInt evaluates an int-valued SSA value to a constant when it is one
// (constants, arithmetic on constants, calls of functions that return a
// constant on every path, len of fixed-size arrays).
func constInt(v ssa.Value, depth int) (int64, bool) {
	if depth > 6 || v == nil {
		return 0, false
	}
	switch x := v.(type) {
	case *ssa.Const:
		if x.Value != nil && x.Value.Kind() == constant.Int {
			return constant.Int64Val(x.Value)
		}
	case *ssa.BinOp:
		a, ok1 := constInt(x.X, depth+1)
		b, ok2 := constInt(x.Y, depth+1)
		if ok1 && ok2 {
			switch x.Op {
			case token.ADD:
				return a + b, true
			case token.SUB:
				return a - b, true
			case token.MUL:
				return a * b, true
			case token.QUO:
				if b != 0 {
					return a / b, true
				}
			}
		}
	case *ssa.Convert:
		return constInt(x.X, depth+1)
	case *ssa.Call:
		if f := x.Call.StaticCallee(); f != nil {
			return constResult(f, depth+1)
		}
	case *ssa.Phi:
		var r int64
		for i, e := range x.Edges {
			k, ok := constInt(e, depth+1)
			if !ok || i > 0 && k != r {
				return 0, false
			}
			r = k
		}
		return r, len(x.Edges) > 0
	}
	return 0, false
}

func constResult(fn *ssa.Function, depth int) (int64, bool) {
	if len(fn.Blocks) == 0 || fn.Signature.Results().Len() != 1 {
		return 0, false
	}
	var r int64
	n := 0
	for _, b := range fn.Blocks {
		for _, in := range b.Instrs {
			ret, ok := in.(*ssa.Return)
			if !ok {
				continue
			}
			k, ok := constInt(ret.Results[0], depth)
			if !ok || n > 0 && k != r {
				return 0, false
			}
			r = k
			n++
		}
	}
	return r, n > 0
}

// concreteOf: the named type a factory method (Group.Point / Group.Scalar)
// returns, read off its MakeInterface.
func concreteOf(fn *ssa.Function) *types.Named {
	if fn == nil {
		return nil
	}
	var found *types.Named
	for _, b := range fn.Blocks {
		for _, in := range b.Instrs {
			ret, ok := in.(*ssa.Return)
			if !ok || len(ret.Results) == 0 {
				continue
			}
			v := ret.Results[0]
			for {
				if mi, ok := v.(*ssa.MakeInterface); ok {
					v = mi.X
					continue
				}
				if ci, ok := v.(*ssa.ChangeInterface); ok {
					v = ci.X
					continue
				}
				break
			}
			t := v.Type()
			if pt, ok := t.Underlying().(*types.Pointer); ok {
				t = pt.Elem()
			}
			if nt, ok := t.(*types.Named); ok {
				if _, isI := nt.Underlying().(*types.Interface); !isI {
					found = nt
				}
			}
		}
	}
	return found
}

// SizeTables (SH-LEN): for every group, the advertised PointLen / ScalarLen
// equals the MarshalSize of the point / scalar type its factory returns,
// wherever both are compile-time constants; value-dependent sizes are
// recorded, not failed.
func SizeTables(c *Ctx, cfg string) {
	p := c.Prog(cfg)
	if p == nil {
		return
	}
	it := p.LookupInterface(core.ModPath, "Group")
	if it == nil {
		c.R.Fatalf("kyber.Group not found")
		return
	}
	n := 0
	for _, g := range p.Implementors(it) {
		for _, pair := range [][2]string{{"Point", "PointLen"}, {"Scalar", "ScalarLen"}} {
			fac := p.Method(g, pair[0])
			lenFn := p.Method(g, pair[1])
			if fac == nil || lenFn == nil || len(fac.Blocks) == 0 || len(lenFn.Blocks) == 0 {
				continue
			}
			ct := concreteOf(fac)
			name := core.Short(g.String()) + "." + pair[1]
			if ct == nil {
				c.R.Ok("SH-LEN", name, "size agreement", p.FnPos(lenFn), "factory result type not a single named type (delegating group)", false)
				continue
			}
			ms := p.Method(ct, "MarshalSize")
			if ms == nil || len(ms.Blocks) == 0 {
				continue
			}
			a, ok1 := constResult(lenFn, 0)
			b, ok2 := constResult(ms, 0)
			site := fmt.Sprintf("%s == (%s).MarshalSize", pair[1], core.Short(ct.String()))
			n++
			switch {
			case ok1 && ok2 && a == b:
				c.R.Ok("SH-LEN", name, site, p.FnPos(lenFn), fmt.Sprintf("both constant %d", a), true)
			case ok1 && ok2:
				c.R.Bad("SH-LEN", name, site, p.FnPos(lenFn), fmt.Sprintf("group advertises %d bytes, the value encodes to %d", a, b))
			default:
				c.R.Ok("SH-LEN", name, site, p.FnPos(lenFn), "not compile-time constant (value-dependent size): recorded, not decided", false)
			}
		}
	}
	if n == 0 {
		c.R.Fatalf("SH-LEN matched no group")
	}
}
