package rules

import (
	"fmt"
	"go/constant"
	"go/token"
	"go/types"
	"strings"

	"golang.org/x/tools/go/ssa"

	"kyverif/internal/core"
)

// writerRule: discipline for every writer of one field, module-wide
// (SH-WRITERS): monotone state can only move one way for every history.
type writerRule struct {
	Type, Field string // short named type, field
	Kind        string // only-true | append-only | map-only-true | no-delete | const-not:<name>
	Why         string
}

var writerRules = map[string][]writerRule{
	"C10": {
		{"share/vss/pedersen.Aggregator", "badDealer", "only-true", "an invalid justification marks the dealer bad for good"},
		{"share/vss/rabin.aggregator", "badDealer", "only-true", "an invalid justification marks the dealer bad for good"},
		{"share/vss/pedersen.Aggregator", "timeout", "only-true", "a timeout is never taken back"},
		{"share/vss/pedersen.Aggregator", "responses", "no-delete", "one response per verifier, never removed"},
		{"share/vss/rabin.aggregator", "responses", "no-delete", "one response per verifier (cleanVerifiers is the documented exception)"},
	},
	"C11": {
		{"share/dkg/pedersen.DistKeyGenerator", "evicted", "append-only", "an evicted dealer stays evicted"},
		{"share/dkg/pedersen.DistKeyGenerator", "evictedHolders", "append-only", "an evicted share holder stays evicted"},
	},
	"C12": {
		{"sign/dss.DSS", "partials", "append-only", "accepted partial signatures are never dropped or replaced"},
		{"sign/dss.DSS", "partialsIdx", "map-only-true", "an index once seen stays seen"},
	},
}

// exceptions: writer functions exempt from a rule, with the reason
var writerExceptions = map[string]string{
	"share/vss/rabin.aggregator.responses|(*share/vss/rabin.aggregator).cleanVerifiers": "after the timeout, absent verifiers get an explicit complaint entry (MapUpdate only, no delete)",
}

func fieldOf(addr ssa.Value) (typ, field string, ok bool) {
	fa, isFA := addr.(*ssa.FieldAddr)
	if !isFA {
		return "", "", false
	}
	pt, isP := fa.X.Type().Underlying().(*types.Pointer)
	if !isP {
		return "", "", false
	}
	st, isS := pt.Elem().Underlying().(*types.Struct)
	if !isS {
		return "", "", false
	}
	return core.Short(types.TypeString(pt.Elem(), nil)), st.Field(fa.Field).Name(), true
}

// loadOfField: v is a load of the given type.field
func loadOfField(v ssa.Value, typ, field string) bool {
	u, ok := v.(*ssa.UnOp)
	if !ok || u.Op != token.MUL {
		return false
	}
	t, f, ok := fieldOf(u.X)
	return ok && t == typ && f == field
}

func WriterDiscipline(c *Ctx, cfg, prop string) {
	p := c.Prog(cfg)
	if p == nil {
		return
	}
	rules := writerRules[prop]
	counts := map[string]int{}
	for _, fn := range p.ModuleFuncs() {
		for _, b := range fn.Blocks {
			for _, in := range b.Instrs {
				switch x := in.(type) {
				case *ssa.Store:
					t, f, ok := fieldOf(x.Addr)
					if !ok {
						continue
					}
					for _, r := range rules {
						if r.Type != t || r.Field != f {
							continue
						}
						key := fmt.Sprintf("%s.%s %s", t, f, r.Kind)
						site := key + " in " + shortFn(fn)
						counts[key]++
						switch r.Kind {
						case "only-true":
							if cst, ok := x.Val.(*ssa.Const); ok && cst.Value != nil && cst.Value.Kind() == constant.Bool && constant.BoolVal(cst.Value) {
								c.R.Ok("SH-WRITERS", shortFn(fn), site, p.Pos(x.Pos()), "stores the constant true", true)
							} else {
								c.R.Bad("SH-WRITERS", shortFn(fn), site, p.Pos(x.Pos()), "stores a value other than the constant true into monotone state ("+r.Why+")")
							}
						case "append-only":
							okAppend := false
							if call, ok := x.Val.(*ssa.Call); ok {
								if bi, ok := call.Call.Value.(*ssa.Builtin); ok && bi.Name() == "append" && loadOfField(call.Call.Args[0], t, f) {
									okAppend = true
								}
							}
							if _, isMake := x.Val.(*ssa.MakeSlice); isMake && strings.HasPrefix(fn.Name(), "New") {
								okAppend = true
							}
							if okAppend {
								c.R.Ok("SH-WRITERS", shortFn(fn), site, p.Pos(x.Pos()), "append to own previous value", true)
							} else {
								c.R.Bad("SH-WRITERS", shortFn(fn), site, p.Pos(x.Pos()), "store is not `field = append(field, …)` ("+r.Why+")")
							}
						case "no-delete", "map-only-true":
							// whole-map replacement outside constructors
							if _, isMake := x.Val.(*ssa.MakeMap); isMake && (strings.HasPrefix(fn.Name(), "New") || strings.HasPrefix(fn.Name(), "new")) {
								c.R.Ok("SH-WRITERS", shortFn(fn), site, p.Pos(x.Pos()), "initialised in constructor", false)
							} else {
								c.R.Bad("SH-WRITERS", shortFn(fn), site, p.Pos(x.Pos()), "map replaced outside its constructor ("+r.Why+")")
							}
						}
					}
				case *ssa.MapUpdate:
					u, ok := x.Map.(*ssa.UnOp)
					if !ok || u.Op != token.MUL {
						continue
					}
					t, f, ok := fieldOf(u.X)
					if !ok {
						continue
					}
					for _, r := range rules {
						if r.Type != t || r.Field != f || r.Kind != "map-only-true" {
							continue
						}
						key := fmt.Sprintf("%s.%s %s", t, f, r.Kind)
						counts[key]++
						site := key + " in " + shortFn(fn)
						if cst, ok := x.Value.(*ssa.Const); ok && cst.Value != nil && cst.Value.Kind() == constant.Bool && constant.BoolVal(cst.Value) {
							c.R.Ok("SH-WRITERS", shortFn(fn), site, p.Pos(x.Pos()), "stores true", true)
						} else {
							c.R.Bad("SH-WRITERS", shortFn(fn), site, p.Pos(x.Pos()), "map entry set to a value other than true ("+r.Why+")")
						}
					}
				case *ssa.Call:
					bi, ok := x.Call.Value.(*ssa.Builtin)
					if !ok || bi.Name() != "delete" {
						continue
					}
					u, ok := x.Call.Args[0].(*ssa.UnOp)
					if !ok || u.Op != token.MUL {
						continue
					}
					t, f, ok := fieldOf(u.X)
					if !ok {
						continue
					}
					for _, r := range rules {
						if r.Type != t || r.Field != f || (r.Kind != "no-delete" && r.Kind != "map-only-true") {
							continue
						}
						key := fmt.Sprintf("%s.%s %s", t, f, r.Kind)
						if why, ok := writerExceptions[t+"."+f+"|"+shortFn(fn)]; ok {
							c.R.Ok("SH-WRITERS", shortFn(fn), key+" delete (excepted)", p.Pos(x.Pos()), why, false)
							continue
						}
						c.R.Bad("SH-WRITERS", shortFn(fn), key+" delete in "+shortFn(fn), p.Pos(x.Pos()), "entry deleted from monotone map ("+r.Why+")")
					}
				}
			}
		}
	}
	// every rule must have matched at least one writer (anchor check), except no-delete
	for _, r := range rules {
		key := fmt.Sprintf("%s.%s %s", r.Type, r.Field, r.Kind)
		if r.Kind != "no-delete" && counts[key] == 0 {
			c.R.Unk("SH-WRITERS", r.Type, key, "", "no writer of this field found: anchor lost")
		}
	}
}
