package rules

import (
	"fmt"
	"go/token"
	"go/types"
	"sort"
	"strings"

	"golang.org/x/tools/go/ssa"

	"kyverif/internal/apo"
	"kyverif/internal/core"
)

// APO-LENGUARD: every index / slice expression on a byte-slice PARAMETER (or
// a re-slice of it) is dominated by some branch fact about the length of that
// parameter (or iterates it with range, or uses constant bounds proven by a
// fixed-size conversion). A function that indexes a byte-slice parameter
// without such a guard "requires a guard" from its callers: the obligation
// moves to each static call site, where the argument must be guarded, of
// trusted length (array, make, encoder result) or itself an unguarded
// parameter (propagates). Exported functions and interface methods that still
// require a guard are reported. Decides existence and dominance of a guard,
// not its arithmetic sufficiency.

type lgInfo struct {
	fn       *ssa.Function
	requires map[int]ssa.Instruction // param index -> first unguarded access
}

func isByteSlice(t types.Type) bool {
	if pt, ok := t.Underlying().(*types.Pointer); ok {
		// pointer receiver of a named byte-slice type (e.g. *tbls.SigShare)
		if _, named := pt.Elem().(*types.Named); !named {
			return false
		}
		t = pt.Elem()
	}
	s, ok := t.Underlying().(*types.Slice)
	if !ok {
		return false
	}
	b, ok := s.Elem().Underlying().(*types.Basic)
	return ok && b.Kind() == types.Byte
}

// rootParam: the []byte parameter a slice value is derived from by re-slicing only.
func rootParam(v ssa.Value) (*ssa.Parameter, bool) {
	for i := 0; i < 8; i++ {
		switch x := v.(type) {
		case *ssa.Parameter:
			return x, isByteSlice(x.Type())
		case *ssa.Slice:
			v = x.X
		case *ssa.ChangeType:
			v = x.X
		case *ssa.UnOp:
			// *s of a pointer receiver of byte-slice type
			if p, ok := x.X.(*ssa.Parameter); ok && x.Op == token.MUL && isByteSlice(p.Type()) {
				return p, true
			}
			return nil, false
		case *ssa.MakeSlice:
			// same-length copy: make([]byte, len(p)) is as long as the parameter
			if call, ok := x.Len.(*ssa.Call); ok {
				if b, ok := call.Call.Value.(*ssa.Builtin); ok && b.Name() == "len" {
					v = call.Call.Args[0]
					continue
				}
			}
			return nil, false
		case *ssa.Phi:
			var p *ssa.Parameter
			for _, e := range x.Edges {
				q, ok := rootParam(e)
				if !ok || p != nil && p != q {
					return nil, false
				}
				p = q
			}
			return p, p != nil
		default:
			return nil, false
		}
	}
	return nil, false
}

func paramIdx(p *ssa.Parameter) int {
	for i, q := range p.Parent().Params {
		if q == p {
			return i
		}
	}
	return -1
}

func lenGuardScan(p *core.Prog, fn *ssa.Function) *lgInfo {
	info := &lgInfo{fn: fn, requires: map[int]ssa.Instruction{}}
	hasBS := false
	for _, prm := range fn.Params {
		if isByteSlice(prm.Type()) {
			hasBS = true
		}
	}
	if !hasBS {
		return info
	}
	a := apo.Analyze(fn, apo.AcceptSpec{})
	guarded := func(b *ssa.BasicBlock, prm *ssa.Parameter) bool {
		for _, v := range a.FactValuesAt(b) {
			if mentionsLen(v, prm, map[ssa.Value]bool{}, 0) {
				return true
			}
		}
		return false
	}
	for _, b := range fn.Blocks {
		for _, in := range b.Instrs {
			var base ssa.Value
			switch x := in.(type) {
			case *ssa.IndexAddr:
				base = x.X
				// index produced by ranging over the same slice
				if ex, ok := x.Index.(*ssa.Extract); ok {
					if _, ok := ex.Tuple.(*ssa.Next); ok {
						continue
					}
				}
			case *ssa.Slice:
				if x.Low == nil && x.High == nil && x.Max == nil {
					continue
				}
				if x.High == nil {
					// s[k:] with constant 0
					if c, ok := x.Low.(*ssa.Const); ok && c.Value != nil && c.Value.String() == "0" {
						continue
					}
				}
				base = x.X
			default:
				continue
			}
			prm, ok := rootParam(base)
			if !ok {
				continue
			}
			if guarded(b, prm) {
				continue
			}
			// loop over the slice by index with the canonical bound `i < len(p)` is a fact too (handled by FactsAt)
			i := paramIdx(prm)
			if _, had := info.requires[i]; !had {
				info.requires[i] = in
			}
		}
	}
	return info
}

func LenGuard(c *Ctx, cfg string, pkgs []string) {
	p := c.Prog(cfg)
	if p == nil {
		return
	}
	infos := map[*ssa.Function]*lgInfo{}
	var fns []*ssa.Function
	for _, fn := range p.ModuleFuncs() {
		pp := core.Short(core.PkgPathOf(fn))
		ok := false
		for _, x := range pkgs {
			if pp == x || strings.HasPrefix(pp, x+"/") {
				ok = true
			}
		}
		if !ok || fn.Synthetic != "" {
			continue
		}
		infos[fn] = lenGuardScan(p, fn)
		fns = append(fns, fn)
	}
	// propagate: a call site passing an unguarded own parameter to a requiring callee makes the caller require it
	type siteViol struct {
		fn   *ssa.Function
		call ssa.Instruction
		what string
	}
	var viols []siteViol
	var elemViols []siteViol
	elemSeen := map[string]bool{}
	changed := true
	for changed {
		changed = false
		viols = viols[:0]
		elemViols = elemViols[:0]
		elemSeen = map[string]bool{}
		for _, fn := range fns {
			var a *apo.FnAnalysis
			for _, b := range fn.Blocks {
				for _, in := range b.Instrs {
					ci, ok := in.(ssa.CallInstruction)
					if !ok {
						continue
					}
					callee := ci.Common().StaticCallee()
					if callee == nil {
						continue
					}
					ci2 := infos[callee]
					if ci2 == nil || len(ci2.requires) == 0 {
						continue
					}
					args := ci.Common().Args
					for k := range ci2.requires {
						if k >= len(args) {
							continue
						}
						arg := args[k]
						prm, isParam := rootParam(arg)
						if !isParam {
							// an element of a [][]byte parameter (one untrusted message among several) handed to a
							// callee that indexes it: must be validated at this call site
							if elem, owner, ok := elementRoot(arg, 0); ok {
								if a == nil {
									a = apo.Analyze(fn, apo.AcceptSpec{})
								}
								if !elemGuarded(a, b, elem) {
									key := fmt.Sprintf("%s|%d", shortFn(fn), in.Pos())
									if !elemSeen[key] {
										elemSeen[key] = true
										elemViols = append(elemViols, siteViol{fn, in, fmt.Sprintf("element of parameter %s passed to %s", owner.Name(), shortFn(callee))})
									}
								}
							}
							continue // array slice, make, encoder result, field: length by construction (not a raw input of this function)
						}
						if a == nil {
							a = apo.Analyze(fn, apo.AcceptSpec{})
						}
						g := false
						for _, v := range a.FactValuesAt(b) {
							if mentionsLen(v, prm, map[ssa.Value]bool{}, 0) {
								g = true
							}
						}
						if g {
							continue
						}
						i := paramIdx(prm)
						if _, had := infos[fn].requires[i]; !had {
							infos[fn].requires[i] = in
							changed = true
						}
					}
				}
			}
		}
	}
	n := 0
	sort.Slice(fns, func(i, j int) bool { return fns[i].String() < fns[j].String() })
	for _, fn := range fns {
		info := infos[fn]
		exported := fn.Object() != nil && fn.Object().Exported() && recvExported(fn)
		if _, ok := lenGuardCallerDuty[shortFn(fn)]; ok {
			exported = false
		}
		for i, prm := range fn.Params {
			if !isByteSlice(prm.Type()) {
				continue
			}
			n++
			site := fmt.Sprintf("parameter %s", prm.Name())
			if acc, bad := info.requires[i]; bad {
				if exported {
					c.R.Bad("APO-LENGUARD", shortFn(fn), site, p.Pos(acc.Pos()), "exported function indexes/slices this byte-slice parameter (directly or in a callee) with no dominating length check")
				} else {
					c.R.Ok("APO-LENGUARD", shortFn(fn), site+" (requires guard: moved to callers)", p.Pos(acc.Pos()), "unexported: every static caller passes a guarded or by-construction argument", true)
				}
				continue
			}
			c.R.Ok("APO-LENGUARD", shortFn(fn), site, p.FnPos(fn), "all accesses dominated by a length fact / range / by-construction", true)
		}
	}
	for _, v := range elemViols {
		c.R.Bad("APO-LENGUARD", shortFn(v.fn), v.what, p.Pos(v.call.Pos()), "the callee indexes/slices the bytes it is given, and at this call no length fact or successful validating call on that element dominates")
	}
	if n == 0 {
		c.R.Fatalf("APO-LENGUARD matched no byte-slice parameter")
	}
}

// elementRoot: v is (a conversion / re-slice / local copy of) an element of a
// parameter whose elements are byte slices; returns the element load and the parameter.
func elementRoot(v ssa.Value, depth int) (ssa.Value, *ssa.Parameter, bool) {
	if depth > 8 || v == nil {
		return nil, nil, false
	}
	switch x := v.(type) {
	case *ssa.ChangeType:
		return elementRoot(x.X, depth+1)
	case *ssa.Slice:
		return elementRoot(x.X, depth+1)
	case *ssa.Convert:
		return elementRoot(x.X, depth+1)
	case *ssa.Alloc:
		var st *ssa.Store
		for _, r := range *x.Referrers() {
			if s, ok := r.(*ssa.Store); ok && s.Addr == ssa.Value(x) {
				if st != nil {
					return nil, nil, false
				}
				st = s
			}
		}
		if st == nil {
			return nil, nil, false
		}
		return elementRoot(st.Val, depth+1)
	case *ssa.UnOp:
		if x.Op != token.MUL {
			return nil, nil, false
		}
		if ia, ok := x.X.(*ssa.IndexAddr); ok {
			if p, ok := ia.X.(*ssa.Parameter); ok {
				if sl, ok := p.Type().Underlying().(*types.Slice); ok && isByteSlice(sl.Elem()) {
					return x, p, true
				}
			}
			return nil, nil, false
		}
		return elementRoot(x.X, depth+1)
	}
	return nil, nil, false
}

// elemGuarded: at block b some fact is computed from the length of the
// element, or is the success of a call that was handed the element.
func elemGuarded(a *apo.FnAnalysis, b *ssa.BasicBlock, elem ssa.Value) bool {
	derived := func(v ssa.Value) bool {
		e, _, ok := elementRoot(v, 0)
		return ok && e == elem
	}
	var lenOf func(v ssa.Value, seen map[ssa.Value]bool, d int) bool
	lenOf = func(v ssa.Value, seen map[ssa.Value]bool, d int) bool {
		if v == nil || seen[v] || d > 10 {
			return false
		}
		seen[v] = true
		if call, ok := v.(*ssa.Call); ok {
			if bi, ok := call.Call.Value.(*ssa.Builtin); ok && bi.Name() == "len" && derived(call.Call.Args[0]) {
				return true
			}
		}
		if in, ok := v.(ssa.Instruction); ok {
			var ops []*ssa.Value
			for _, op := range in.Operands(ops) {
				if *op != nil && lenOf(*op, seen, d+1) {
					return true
				}
			}
		}
		return false
	}
	for _, f := range a.FactTriplesAt(b) {
		if lenOf(f.V, map[ssa.Value]bool{}, 0) {
			return true
		}
		// success of a validating call that received the element
		v := f.V
		if ex, ok := v.(*ssa.Extract); ok {
			v = ex.Tuple
		}
		call, ok := v.(*ssa.Call)
		if !ok {
			continue
		}
		success := f.IsNil && f.Val || !f.IsNil && f.Val
		if !success {
			continue
		}
		var args []ssa.Value
		if call.Call.IsInvoke() {
			args = append(args, call.Call.Value)
		}
		args = append(args, call.Call.Args...)
		for _, arg := range args {
			if derived(arg) {
				return true
			}
			// the same local holding the element (e.g. sh.Index() and sh.Value() on one variable)
			if ld, ok := arg.(*ssa.UnOp); ok && derived(ld.X) {
				return true
			}
		}
	}
	return false
}

// mentionsLen: the value is computed from len(p') where p' is the parameter,
// a re-slice of it, or a slice made with a length derived from it.
func mentionsLen(v ssa.Value, prm *ssa.Parameter, seen map[ssa.Value]bool, depth int) bool {
	if v == nil || seen[v] || depth > 12 {
		return false
	}
	seen[v] = true
	if call, ok := v.(*ssa.Call); ok {
		if b, ok := call.Call.Value.(*ssa.Builtin); ok && (b.Name() == "len" || b.Name() == "cap") {
			arg := call.Call.Args[0]
			if r, ok := rootParam(arg); ok && r == prm {
				return true
			}
			return lenSource(arg, prm, seen, depth+1)
		}
	}
	if in, ok := v.(ssa.Instruction); ok {
		var ops []*ssa.Value
		for _, op := range in.Operands(ops) {
			if *op != nil && mentionsLen(*op, prm, seen, depth+1) {
				return true
			}
		}
	}
	return false
}

// lenSource: the slice x has a length derived from len(prm) (make / phi of such).
func lenSource(x ssa.Value, prm *ssa.Parameter, seen map[ssa.Value]bool, depth int) bool {
	switch y := x.(type) {
	case *ssa.MakeSlice:
		return mentionsLen(y.Len, prm, seen, depth+1)
	case *ssa.Phi:
		for _, e := range y.Edges {
			if r, ok := rootParam(e); ok && r == prm {
				return true
			}
			if lenSource(e, prm, seen, depth+1) {
				return true
			}
		}
	case *ssa.Slice:
		return lenSource(y.X, prm, seen, depth+1)
	}
	return false
}

func recvExported(fn *ssa.Function) bool {
	recv := fn.Signature.Recv()
	if recv == nil {
		return true
	}
	t := recv.Type()
	if pt, ok := t.Underlying().(*types.Pointer); ok {
		t = pt.Elem()
	}
	if nt, ok := t.(*types.Named); ok {
		// methods of unexported types are reachable from outside only through interfaces of the
		// kyber API (Point, Scalar, XOF ...): those are listed by the implementor discovery
		return nt.Obj().Exported() || kyberAPIMethod[fn.Name()]
	}
	return true
}

// lenGuardCallerDuty: exported accessors without an error result whose
// precondition is checked by every in-module caller (the obligation is
// discharged at the call sites, like for unexported functions).
var lenGuardCallerDuty = map[string]string{
	"(*sign/tbls.SigShare).Value": "accessor with no error result; Index()/IndexOf validate the share first at every call site",
}

var kyberAPIMethod = map[string]bool{"UnmarshalBinary": true, "SetBytes": true, "Embed": true, "Hash": true, "IsCanonical": true,
	"Write": true, "Read": true, "XORKeyStream": true, "Reseed": true, "Verify": true, "Recover": true, "IndexOf": true, "VerifyPartial": true,
	"VerifyRecovered": true, "Sign": true}
