package rules

import (
	"fmt"
	"go/constant"
	"sort"
	"strings"

	"golang.org/x/tools/go/ssa"

	"kyverif/internal/core"
)

// globalStringInit: the string constant a package-level []byte variable is
// initialised from in the package initialiser.
func globalStringInit(p *core.Prog, pkgPath, name string) (string, bool) {
	pk := p.SSA.ImportedPackage(pkgPath)
	if pk == nil {
		return "", false
	}
	init := pk.Func("init")
	if init == nil {
		return "", false
	}
	var val string
	n := 0
	for _, b := range init.Blocks {
		for _, in := range b.Instrs {
			st, ok := in.(*ssa.Store)
			if !ok {
				continue
			}
			g, ok := st.Addr.(*ssa.Global)
			if !ok || g.Name() != name {
				continue
			}
			v := st.Val
			for {
				if cv, ok := v.(*ssa.Convert); ok {
					v = cv.X
					continue
				}
				break
			}
			if c, ok := v.(*ssa.Const); ok && c.Value != nil && c.Value.Kind() == constant.String {
				val = constant.StringVal(c.Value)
				n++
			}
		}
	}
	return val, n == 1
}

// storesToGlobal lists functions other than the package initialiser that
// store to the named package-level variable.
func storesToGlobal(p *core.Prog, pkgPath, name string) []string {
	var out []string
	for _, fn := range p.ModuleFuncs() {
		if fn.Name() == "init" && core.PkgPathOf(fn) == pkgPath {
			continue
		}
		for _, b := range fn.Blocks {
			for _, in := range b.Instrs {
				if st, ok := in.(*ssa.Store); ok {
					if g, ok := st.Addr.(*ssa.Global); ok && g.Name() == name && g.Pkg.Pkg.Path() == pkgPath {
						out = append(out, shortFn(fn))
					}
				}
			}
		}
	}
	return out
}

// SiblingConstants (SH-SIBCONST): the Kilic, CIRCL and gnark adapters of
// BLS12-381 agree on the default hash-to-curve domain-separation tags and on
// the encoded sizes of G1, G2, GT and scalars; the tags are written only by
// the package initialiser.
func SiblingConstants(c *Ctx, cfg string) {
	p := c.Prog(cfg)
	if p == nil {
		return
	}
	base := core.ModPath + "/pairing/bls12381/"
	backends := []string{"kilic", "circl", "gnark"}
	for _, g := range []string{"domainG1", "domainG2"} {
		vals := map[string]string{}
		for _, be := range backends {
			v, ok := globalStringInit(p, base+be, g)
			if !ok {
				c.R.Unk("SH-SIBCONST", "pairing/bls12381/"+be, g, "", "initialiser of the default tag not found as a single string constant")
				continue
			}
			vals[be] = v
			if ws := storesToGlobal(p, base+be, g); len(ws) > 0 {
				c.R.Bad("SH-SIBCONST", "pairing/bls12381/"+be, g+" written only by init", "", "also stored by "+strings.Join(ws, ", "))
			} else {
				c.R.Ok("SH-SIBCONST", "pairing/bls12381/"+be, g+" written only by init", "", "", true)
			}
		}
		agree := len(vals) == len(backends)
		for _, be := range backends {
			if vals[be] != vals[backends[0]] {
				agree = false
			}
		}
		site := "default " + g + " agrees across back-ends"
		if agree {
			c.R.Ok("SH-SIBCONST", "pairing/bls12381", site, "", fmt.Sprintf("%q", vals["kilic"]), true)
		} else {
			c.R.Bad("SH-SIBCONST", "pairing/bls12381", site, "", fmt.Sprintf("%v", vals))
		}
	}
	for _, tn := range []string{"G1Elt", "G2Elt", "GTElt", "Scalar"} {
		sizes := map[string]int64{}
		var keys []string
		for _, be := range backends {
			fn := p.Fn("(*pairing/bls12381/" + be + "." + tn + ").MarshalSize")
			if fn == nil {
				continue // kilic scalars are mod.Int (value-dependent size)
			}
			if k, ok := constResult(fn, 0); ok {
				sizes[be] = k
				keys = append(keys, be)
			}
		}
		sort.Strings(keys)
		site := tn + ".MarshalSize agrees across back-ends"
		if len(keys) < 2 {
			c.R.Unk("SH-SIBCONST", "pairing/bls12381", site, "", "fewer than two constant sizes found")
			continue
		}
		ok := true
		for _, k := range keys {
			if sizes[k] != sizes[keys[0]] {
				ok = false
			}
		}
		if ok {
			c.R.Ok("SH-SIBCONST", "pairing/bls12381", site, "", fmt.Sprintf("%d bytes in %v", sizes[keys[0]], keys), true)
		} else {
			c.R.Bad("SH-SIBCONST", "pairing/bls12381", site, "", fmt.Sprintf("%v", sizes))
		}
	}
}

// BuildConfigs (SH-CONFIG): every build configuration type-checks and is loaded.
func BuildConfigs(c *Ctx, cfgs []string) {
	for _, cfg := range cfgs {
		p := c.Prog(cfg)
		if p == nil {
			c.R.Bad("SH-CONFIG", "build", cfg, "", "configuration does not type-check")
			continue
		}
		c.R.Ok("SH-CONFIG", "build", cfg, "", fmt.Sprintf("%d packages, %d functions with bodies", len(p.Pkgs), len(p.ModuleFuncs())), true)
		if cfg != "default" {
			c.Drop(cfg)
		}
	}
}
