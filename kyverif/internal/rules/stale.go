package rules

import (
	"fmt"
	"go/types"

	"golang.org/x/tools/go/ssa"

	"kyverif/internal/core"
)

var kyberMutatorNames = map[string]bool{"Null": true, "Base": true, "Pick": true, "Set": true, "Embed": true, "Add": true, "Sub": true, "Neg": true,
	"Mul": true, "SetInt64": true, "Zero": true, "One": true, "Div": true, "Inv": true, "SetBytes": true}

// mutatorCall: the call is a receiver-returning mutator of the kyber API
// (dynamic call on kyber.Point/Scalar, or static call of a module method of
// that name whose result type is an interface/pointer): returns the receiver value.
func mutatorCall(c *ssa.CallCommon) ssa.Value {
	var name string
	var recv ssa.Value
	if c.IsInvoke() {
		name, recv = c.Method.Name(), c.Value
		ts := types.TypeString(c.Value.Type(), nil)
		if ts != core.ModPath+".Point" && ts != core.ModPath+".Scalar" {
			return nil
		}
	} else if f := c.StaticCallee(); f != nil && f.Signature.Recv() != nil && len(c.Args) > 0 && core.InModule(f) {
		name, recv = f.Name(), c.Args[0]
		res := f.Signature.Results()
		if res.Len() != 1 {
			return nil
		}
		ts := types.TypeString(res.At(0).Type(), nil)
		if ts != core.ModPath+".Point" && ts != core.ModPath+".Scalar" {
			return nil
		}
	} else {
		return nil
	}
	if !kyberMutatorNames[name] {
		return nil
	}
	return recv
}

func stripConv(v ssa.Value) ssa.Value {
	for {
		switch x := v.(type) {
		case *ssa.MakeInterface:
			v = x.X
		case *ssa.ChangeInterface:
			v = x.X
		case *ssa.ChangeType:
			v = x.X
		case *ssa.TypeAssert:
			v = x.X
		default:
			return v
		}
	}
}

// StaleResults (EFX-STALE): the result r1 of a receiver-returning mutator on
// object X denotes X itself; if X is mutated again (r2 = X.op2(...)) and r1 is
// still used afterwards as an operand, the use sees op2's result, not op1's —
// e.g. `P.Mul(a, b).Equal(P.Add(c, d))` compares P with itself. Checked over
// every function of the listed packages; any hit is a violation.
func StaleResults(c *Ctx, cfg string, pkgPrefixes []string) {
	p := c.Prog(cfg)
	if p == nil {
		return
	}
	nfn, ncalls := 0, 0
	for _, fn := range p.ModuleFuncs() {
		pp := core.Short(core.PkgPathOf(fn))
		ok := len(pkgPrefixes) == 0
		for _, pre := range pkgPrefixes {
			if pp == pre || len(pp) > len(pre) && pp[:len(pre)+1] == pre+"/" {
				ok = true
			}
		}
		if !ok {
			continue
		}
		nfn++
		// alias classes: value -> class representative (object)
		class := map[ssa.Value]ssa.Value{}
		find := func(v ssa.Value) ssa.Value {
			v = stripConv(v)
			if r, ok := class[v]; ok {
				return r
			}
			return v
		}
		type mcall struct {
			call *ssa.Call
			obj  ssa.Value
			idx  int
		}
		for _, b := range fn.Blocks {
			var seq []mcall
			for i, in := range b.Instrs {
				call, ok := in.(*ssa.Call)
				if !ok {
					continue
				}
				recv := mutatorCall(&call.Call)
				if recv == nil {
					continue
				}
				ncalls++
				obj := find(recv)
				class[call] = obj
				// earlier results on the same object in this block that are still used later
				for _, prev := range seq {
					if prev.obj != obj || prev.call == call {
						continue
					}
					// `s := X.Mul(..); s.Add(r, s); use(s)`: the second mutation goes through the
					// first result itself, which the code uses as the name of the object: not stale
					if stripConv(recv) == ssa.Value(prev.call) {
						continue
					}
					// is prev.call's result an operand of this very call? then it is consumed now: fine
					for _, ref := range *prev.call.Referrers() {
						ri, ok := ref.(ssa.Instruction)
						if !ok || ri.Block() != b {
							continue
						}
						j := instrIdx(b, ri)
						if j <= i {
							continue
						}
						// used after the object was overwritten by `call`
						if rc, ok := ri.(*ssa.Call); ok {
							// using it as the receiver of a further mutator is ordinary chaining
							if r2 := mutatorCall(&rc.Call); r2 != nil && stripConv(r2) == ssa.Value(prev.call) {
								continue
							}
						}
						site := fmt.Sprintf("result of %s used after the same object was overwritten by %s", callName(&prev.call.Call), callName(&call.Call))
						c.R.Bad("EFX-STALE", shortFn(fn), site, p.Pos(ri.Pos()),
							fmt.Sprintf("value computed at %s aliases its receiver, which is overwritten at %s before the use at %s",
								p.Pos(prev.call.Pos()), p.Pos(call.Pos()), p.Pos(ri.Pos())))
					}
				}
				seq = append(seq, mcall{call, obj, i})
			}
		}
	}
	c.R.Ok("EFX-STALE", "module", fmt.Sprintf("%d functions, %d receiver-returning mutator calls scanned", nfn, ncalls), "", "no stale mutator result in use", ncalls > 0)
	c.R.CallSites += ncalls
}

func instrIdx(b *ssa.BasicBlock, in ssa.Instruction) int {
	for i, x := range b.Instrs {
		if x == in {
			return i
		}
	}
	return -1
}

func callName(c *ssa.CallCommon) string {
	if c.IsInvoke() {
		return c.Method.Name()
	}
	if f := c.StaticCallee(); f != nil {
		return f.Name()
	}
	return "?"
}
