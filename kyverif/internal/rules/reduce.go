package rules

import (
	"fmt"
	"go/constant"
	"go/token"
	"go/types"
	"strings"

	"golang.org/x/tools/go/ssa"

	"kyverif/internal/core"
)

// SH-REDUCE: canonical-form discipline of mod.Int ("every result is in
// canonical reduced form"): on every path to a return of every scalar
// operation, the last writer of the receiver's value V is a *reducing*
// primitive of compatible.Int (Add/Sub/Mul/Exp/ModInverse/Mod with the
// modulus, SetBytesMod, a successful SetBytesWithCheck), a copy of another
// mod.Int's V (canonical by induction), the constants 0/1, or random.Int.
// A non-reducing write (SetInt64(v), SetUint64, SetBytes, SetString, the
// modulus itself) must be followed by a reducing one. Decides the writer
// discipline, not that the primitives compute the right residue.

type canonState int8

const (
	csNone  canonState = iota // not written yet
	csCanon                   // last write was reducing
	csDirty                   // last write was not reducing
)

func joinCS(a, b canonState) canonState {
	if a == csDirty || b == csDirty {
		return csDirty
	}
	if a == csCanon || b == csCanon {
		return csCanon // one path leaves the previous (canonical by invariant) value
	}
	return csNone
}

var reducingMethods = map[string]bool{"Add": true, "Sub": true, "Mul": true, "Exp": true, "ModInverse": true, "Mod": true,
	"SetBytesMod": true, "SetBytesWithCheck": true, "Set": true, "SetStringM": true}
var dirtyMethods = map[string]bool{"SetInt64": true, "SetUint64": true, "SetUint": true, "SetBytes": true, "SetString": true, "SetBit": true,
	"FromNat": true, "Lsh": true, "Rsh": true, "Neg": true, "Abs": true}

type reduceCtx struct {
	p      *core.Prog
	intT   string // short name of mod.Int
	memo   map[*ssa.Function]canonState
	active map[*ssa.Function]bool
}

func isCompatInt(t types.Type) bool {
	if pt, ok := t.Underlying().(*types.Pointer); ok {
		t = pt.Elem()
	}
	return core.Short(types.TypeString(t, nil)) == "compatible.Int"
}

// isVOfRecv: addr denotes P0.V of the method's receiver.
func isVOfRecv(fn *ssa.Function, v ssa.Value) bool {
	for {
		switch x := v.(type) {
		case *ssa.FieldAddr:
			st := x.X.Type().Underlying().(*types.Pointer).Elem().Underlying().(*types.Struct)
			return st.Field(x.Field).Name() == "V" && len(fn.Params) > 0 && x.X == ssa.Value(fn.Params[0])
		case *ssa.Call:
			// chained: i.V.SetInt64(v).Mod(...) — methods of compatible.Int return their receiver
			if f := x.Call.StaticCallee(); f != nil && f.Signature.Recv() != nil && isCompatInt(f.Signature.Recv().Type()) && len(x.Call.Args) > 0 {
				v = x.Call.Args[0]
				continue
			}
			return false
		default:
			return false
		}
	}
}

func isSmallConst(v ssa.Value) bool {
	c, ok := v.(*ssa.Const)
	if !ok || c.Value == nil || c.Value.Kind() != constant.Int {
		return false
	}
	k, ok := constant.Int64Val(c.Value)
	return ok && (k == 0 || k == 1)
}

// canonValue: is the compatible.Int value (or pointer to one) known reduced?
func (rc *reduceCtx) canonValue(fn *ssa.Function, v ssa.Value, depth int) bool {
	if depth > 8 {
		return false
	}
	switch x := v.(type) {
	case *ssa.UnOp:
		if x.Op == token.MUL {
			return rc.canonValue(fn, x.X, depth+1)
		}
	case *ssa.FieldAddr:
		st := x.X.Type().Underlying().(*types.Pointer).Elem().Underlying().(*types.Struct)
		if st.Field(x.Field).Name() == "V" && core.Short(types.TypeString(x.X.Type().Underlying().(*types.Pointer).Elem(), nil)) == rc.intT {
			return true // V of some mod.Int: canonical by the invariant being established
		}
	case *ssa.Call:
		f := x.Call.StaticCallee()
		if f == nil {
			return false
		}
		name := core.Short(f.String())
		switch {
		case name == "util/random.Int":
			return true
		case name == "compatible.NewInt" || name == "compatible.NewUint":
			return len(x.Call.Args) == 1 && isSmallConst(x.Call.Args[0])
		case f.Signature.Recv() != nil && isCompatInt(f.Signature.Recv().Type()):
			if reducingMethods[f.Name()] {
				if f.Name() == "Set" {
					return len(x.Call.Args) > 1 && rc.canonValue(fn, x.Call.Args[1], depth+1)
				}
				return true
			}
			if (f.Name() == "SetInt64" || f.Name() == "SetUint64") && len(x.Call.Args) > 1 && isSmallConst(x.Call.Args[1]) {
				return true
			}
		}
	case *ssa.Alloc:
		// local temporary: every writer must be reducing
		ok, any := true, false
		for _, r := range *x.Referrers() {
			switch w := r.(type) {
			case *ssa.Call:
				f := w.Call.StaticCallee()
				if f == nil || f.Signature.Recv() == nil || len(w.Call.Args) == 0 || w.Call.Args[0] != ssa.Value(x) {
					continue
				}
				if dirtyMethods[f.Name()] {
					ok = false
				}
				if reducingMethods[f.Name()] {
					any = true
				}
			case *ssa.Store:
				if w.Addr == ssa.Value(x) {
					if rc.canonValue(fn, w.Val, depth+1) {
						any = true
					} else {
						ok = false
					}
				}
			}
		}
		return ok && any
	case *ssa.Extract:
		return rc.canonValue(fn, x.Tuple, depth+1)
	case *ssa.Phi:
		for _, e := range x.Edges {
			if !rc.canonValue(fn, e, depth+1) {
				return false
			}
		}
		return len(x.Edges) > 0
	}
	return false
}

// leaves: state of P0.V at the returns of fn (a method of mod.Int).
func (rc *reduceCtx) leaves(fn *ssa.Function) (canonState, token.Pos) {
	if s, ok := rc.memo[fn]; ok {
		return s, token.NoPos
	}
	if rc.active[fn] || len(fn.Blocks) == 0 {
		return csCanon, token.NoPos
	}
	rc.active[fn] = true
	defer delete(rc.active, fn)
	in := map[*ssa.BasicBlock]canonState{fn.Blocks[0]: csNone}
	reached := map[*ssa.BasicBlock]bool{fn.Blocks[0]: true}
	var dirtyPos token.Pos
	result := csNone
	changed := true
	for iter := 0; changed && iter < 50; iter++ {
		changed = false
		result = csNone
		for _, b := range fn.Blocks {
			if !reached[b] {
				continue
			}
			st := in[b]
			for _, instr := range b.Instrs {
				switch x := instr.(type) {
				case *ssa.Store:
					if isVOfRecv(fn, x.Addr) {
						if rc.canonValue(fn, x.Val, 0) {
							st = csCanon
						} else {
							st = csDirty
							dirtyPos = x.Pos()
						}
					}
				case *ssa.Call:
					f := x.Call.StaticCallee()
					if f == nil || len(x.Call.Args) == 0 {
						continue
					}
					if f.Signature.Recv() != nil && isCompatInt(f.Signature.Recv().Type()) && isVOfRecv(fn, x.Call.Args[0]) {
						switch {
						case reducingMethods[f.Name()]:
							if f.Name() == "Set" && !(len(x.Call.Args) > 1 && rc.canonValue(fn, x.Call.Args[1], 0)) {
								st = csDirty
								dirtyPos = x.Pos()
							} else {
								st = csCanon
							}
						case (f.Name() == "SetInt64" || f.Name() == "SetUint64") && len(x.Call.Args) > 1 && isSmallConst(x.Call.Args[1]):
							st = csCanon
						case dirtyMethods[f.Name()]:
							st = csDirty
							dirtyPos = x.Pos()
						}
					} else if f.Signature.Recv() != nil && core.Short(types.TypeString(f.Signature.Recv().Type(), nil)) == "*"+rc.intT && x.Call.Args[0] == ssa.Value(fn.Params[0]) {
						// another method of the same receiver
						if s, _ := rc.leaves(f); s != csNone {
							st = s
							if s == csDirty {
								dirtyPos = x.Pos()
							}
						}
					}
				case *ssa.Return:
					result = joinCS(result, st)
					if st == csNone && result == csNone {
						result = csNone
					}
				}
			}
			for _, s := range b.Succs {
				ns := st
				if reached[s] {
					ns = joinCS(in[s], st)
				}
				if !reached[s] || ns != in[s] {
					in[s] = ns
					reached[s] = true
					changed = true
				}
			}
		}
	}
	rc.memo[fn] = result
	return result, dirtyPos
}

func ReduceDiscipline(c *Ctx, cfg string) {
	p := c.Prog(cfg)
	if p == nil {
		return
	}
	var intNT *types.Named
	for _, it := range c.implTypes(p) {
		if it.Kind == "scalar" && core.Short(it.Named.String()) == "group/mod.Int" {
			intNT = it.Named
		}
	}
	if intNT == nil {
		c.R.Unk("SH-REDUCE", "group/mod.Int", "anchor", "", "type not found")
		return
	}
	rc := &reduceCtx{p: p, intT: "group/mod.Int", memo: map[*ssa.Function]canonState{}, active: map[*ssa.Function]bool{}}
	n := 0
	for _, m := range []string{"Add", "Sub", "Neg", "Mul", "Div", "Inv", "Exp", "SetInt64", "SetUint64", "SetBytes", "Zero", "One", "Set", "Pick",
		"Init", "Init64", "InitBytes", "UnmarshalBinary"} {
		fn := p.Method(intNT, m)
		if fn == nil || len(fn.Blocks) == 0 || fn.Synthetic != "" {
			continue
		}
		n++
		st, pos := rc.leaves(fn)
		name := shortFn(fn)
		site := "value left reduced modulo M on every returning path"
		switch st {
		case csDirty:
			c.R.Bad("SH-REDUCE", name, site, p.Pos(pos), "the last write of V on some path is not a reducing primitive (un-reduced value would escape; Equal no longer coincides with equality of residues)")
		case csCanon:
			c.R.Ok("SH-REDUCE", name, site, p.FnPos(fn), "last writer of V is reducing on every path", true)
		default:
			c.R.Ok("SH-REDUCE", name, site, p.FnPos(fn), "V not written", false)
		}
	}
	if n < 12 {
		c.R.Fatalf("SH-REDUCE matched %d methods of mod.Int in %s, expected at least 12", n, cfg)
	}
	_ = fmt.Sprint
	_ = strings.TrimSpace
}
