package rules

import (
	"fmt"
	"go/types"

	"golang.org/x/tools/go/ssa"

	"kyverif/internal/core"
)

// EFX-LOOPSHARE: an object allocated OUTSIDE a loop is stored into a
// collection slot (slice element, map entry, append) INSIDE the loop and is
// also mutated inside the loop: every slot then holds the same object, whose
// value keeps changing ("one response per variable" turns into one shared
// response). Any hit in the listed packages is a violation.
func LoopShare(c *Ctx, cfg string, pkgs []string) {
	p := c.Prog(cfg)
	if p == nil {
		return
	}
	nloops := 0
	for _, fn := range p.ModuleFuncs() {
		pp := core.Short(core.PkgPathOf(fn))
		ok := false
		for _, x := range pkgs {
			if pp == x {
				ok = true
			}
		}
		if !ok {
			continue
		}
		// blocks in a cycle: b reaches itself
		inLoop := map[*ssa.BasicBlock]*ssa.BasicBlock{} // block -> a loop header dominating it with a back edge
		for _, b := range fn.Blocks {
			for _, s := range b.Succs {
				if s.Dominates(b) { // back edge b -> s: loop body = blocks dominated by s that reach b
					nloops++
					for _, x := range fn.Blocks {
						if s.Dominates(x) && reaches(x, b, s) {
							inLoop[x] = s
						}
					}
				}
			}
		}
		if len(inLoop) == 0 {
			continue
		}
		for b, hdr := range inLoop {
			for _, in := range b.Instrs {
				var stored ssa.Value
				switch x := in.(type) {
				case *ssa.Store:
					if _, ok := x.Addr.(*ssa.IndexAddr); ok {
						stored = x.Val
					}
				case *ssa.MapUpdate:
					stored = x.Value
				}
				if stored == nil {
					continue
				}
				obj := stripConv(stored)
				var call ssa.Instruction
				switch o := obj.(type) {
				case *ssa.Call:
					if _, isRef := o.Type().Underlying().(interface{ NumMethods() int }); !isRef {
						if _, isPtr := o.Type().Underlying().(*types.Pointer); !isPtr {
							continue
						}
					}
					call = o
				case *ssa.Alloc:
					if !o.Heap {
						continue
					}
					call = o
				default:
					continue
				}
				if call.Block() == nil || inLoop[call.Block()] == hdr || !call.Block().Dominates(hdr) {
					continue // allocated inside the loop (fresh per iteration) or not a dominating allocation
				}
				// mutated inside the same loop? (kyber mutator on it, or a store into one of its fields/elements)
				mutated := false
				for _, r := range *obj.Referrers() {
					ri, ok := r.(ssa.Instruction)
					if !ok || inLoop[ri.Block()] != hdr {
						continue
					}
					switch rc := r.(type) {
					case *ssa.Call:
						if recv := mutatorCall(&rc.Call); recv != nil && stripConv(recv) == obj {
							mutated = true
						}
					case *ssa.FieldAddr:
						for _, rr := range *rc.Referrers() {
							if st, ok := rr.(*ssa.Store); ok && st.Addr == ssa.Value(rc) {
								mutated = true
							}
						}
					case *ssa.IndexAddr:
						for _, rr := range *rc.Referrers() {
							if st, ok := rr.(*ssa.Store); ok && st.Addr == ssa.Value(rc) {
								mutated = true
							}
						}
					}
				}
				if mutated {
					c.R.Bad("EFX-LOOPSHARE", shortFn(fn), fmt.Sprintf("object allocated at %s", p.Pos(call.Pos())), p.Pos(in.Pos()),
						"allocated once outside the loop, mutated and stored into a different slot on every iteration: all slots share one object")
				}
			}
		}
	}
	c.R.Ok("EFX-LOOPSHARE", "module", fmt.Sprintf("%d loops scanned in %v", nloops, pkgs), "", "no loop stores a loop-invariant mutable object into per-iteration slots", nloops > 0)
}

func reaches(from, to, avoidBeyond *ssa.BasicBlock) bool {
	seen := map[*ssa.BasicBlock]bool{}
	var walk func(b *ssa.BasicBlock) bool
	walk = func(b *ssa.BasicBlock) bool {
		if b == to {
			return true
		}
		if seen[b] {
			return false
		}
		seen[b] = true
		for _, s := range b.Succs {
			if s == avoidBeyond {
				continue
			}
			if walk(s) {
				return true
			}
		}
		return false
	}
	return walk(from)
}
