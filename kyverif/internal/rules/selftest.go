package rules

import (
	"encoding/json"
	"fmt"
	"os"
	"os/exec"
	"path/filepath"
	"sort"
	"strings"

	"kyverif/internal/core"
)

// Seeded change metadata (/verif/seeded/<id>/meta.json).
type seededMeta struct {
	Property   string   `json:"property"`
	DetectedBy []string `json:"detected_by"` // properties whose check reports it ([] = not detectable by this family)
	Rules      []string `json:"rules"`
	SilentFor  []string `json:"silent_for"` // behaviour-preserving changes: these checks must stay silent
}

// overlayFor applies a patch to scratch copies of the files it touches and
// returns them as a go/packages overlay: the repository itself is not modified.
func overlayFor(patch string) (map[string][]byte, error) {
	b, err := os.ReadFile(patch)
	if err != nil {
		return nil, err
	}
	var files []string
	for _, l := range strings.Split(string(b), "\n") {
		if strings.HasPrefix(l, "+++ b/") {
			files = append(files, strings.TrimSpace(strings.TrimPrefix(l, "+++ b/")))
		}
	}
	tmp, err := os.MkdirTemp("", "kyverif-overlay")
	if err != nil {
		return nil, err
	}
	defer os.RemoveAll(tmp)
	for _, f := range files {
		os.MkdirAll(filepath.Dir(filepath.Join(tmp, f)), 0o755)
		src, err := os.ReadFile(filepath.Join(core.RepoDir(), f))
		if os.IsNotExist(err) {
			continue // a file the patch creates
		}
		if err != nil {
			return nil, err
		}
		if err := os.WriteFile(filepath.Join(tmp, f), src, 0o644); err != nil {
			return nil, err
		}
	}
	cmd := exec.Command("patch", "-p1", "-s", "-i", patch)
	cmd.Dir = tmp
	if out, err := cmd.CombinedOutput(); err != nil {
		return nil, fmt.Errorf("patch does not apply to the current tree: %v %s", err, strings.TrimSpace(string(out)))
	}
	ov := map[string][]byte{}
	for _, f := range files {
		nb, err := os.ReadFile(filepath.Join(tmp, f))
		if err != nil {
			return nil, err
		}
		ov[filepath.Join(core.RepoDir(), f)] = nb
	}
	return ov, nil
}

// SelfTest (thorough tier): every seeded change recorded as detectable by this
// property's check is applied through an overlay and the rules must report it.
func SelfTest(c *Ctx, p *Property) {
	dirs, _ := filepath.Glob(filepath.Join(core.VerifDir(), "seeded", "*", "meta.json"))
	sort.Strings(dirs)
	n := 0
	for _, mf := range dirs {
		var m seededMeta
		b, err := os.ReadFile(mf)
		if err != nil || json.Unmarshal(b, &m) != nil {
			continue
		}
		want, silent := false, false
		for _, d := range m.DetectedBy {
			if d == c.Prop {
				want = true
			}
		}
		for _, d := range m.SilentFor {
			if d == c.Prop {
				silent = true
			}
		}
		if !want && !silent {
			continue
		}
		id := filepath.Base(filepath.Dir(mf))
		ov, err := overlayFor(filepath.Join(filepath.Dir(mf), "patch.diff"))
		if err != nil {
			c.R.Ok("SELFTEST", "seeded/"+id, "skipped", "", "seeded change no longer applies to the tree: "+err.Error(), false)
			continue
		}
		n++
		sub := NewCtx(c.Prop, "selftest")
		sub.Overlay = ov
		func() {
			defer func() {
				if e := recover(); e != nil {
					sub.R.Fatalf("checker panic: %v", e)
				}
			}()
			p.Run(sub)
		}()
		rules := map[string]int{}
		for _, o := range sub.R.Obls {
			if o.Status != core.Discharged {
				rules[o.Rule]++
			}
		}
		var rs []string
		for r, k := range rules {
			rs = append(rs, fmt.Sprintf("%s×%d", r, k))
		}
		sort.Strings(rs)
		if silent {
			if len(rs) == 0 && len(sub.R.Fatal) == 0 {
				c.R.Ok("SELFTEST", "seeded/"+id, "behaviour-preserving refactoring raises no alarm", "", "", true)
			} else {
				c.R.Bad("SELFTEST", "seeded/"+id, "behaviour-preserving refactoring raises no alarm", "", "false alarm on a behaviour-preserving change: "+strings.Join(rs, ", ")+strings.Join(sub.R.Fatal, "; "))
			}
			continue
		}
		if len(rs) == 0 && len(sub.R.Fatal) == 0 {
			c.R.Bad("SELFTEST", "seeded/"+id, "seeded change is reported", "", "the check stayed silent on a seeded change it is recorded to detect")
		} else {
			c.R.Ok("SELFTEST", "seeded/"+id, "seeded change is reported", "", "reported by "+strings.Join(rs, ", "), true)
		}
	}
	c.R.Extra["selftest_seeded_changes"] = n
}

// TryPatch runs the quick-tier rules of the given properties on the tree with
// a patch applied through an overlay (development aid: /repo is not modified,
// no evidence is written). Returns the reports per property.
func TryPatch(patch string, props []string) map[string][]string {
	out := map[string][]string{}
	var ov map[string][]byte
	if patch != "-" { // "-": the working tree as it is (a change applied with git apply)
		var err error
		ov, err = overlayFor(patch)
		if err != nil {
			for _, pr := range props {
				out[pr] = []string{"overlay: " + err.Error()}
			}
			return out
		}
	}
	shared := map[string]*core.Prog{}
	for _, pr := range props {
		p := Registry[pr]
		if p == nil {
			out[pr] = []string{"unknown property"}
			continue
		}
		sub := NewCtx(pr, "selftest")
		sub.Overlay = ov
		sub.Shared = shared
		func() {
			defer func() {
				if e := recover(); e != nil {
					sub.R.Fatalf("checker panic: %v", e)
				}
			}()
			p.Run(sub)
		}()
		var rep []string
		for _, o := range sub.R.Obls {
			if o.Status != core.Discharged {
				rep = append(rep, fmt.Sprintf("%s: [%s] %s — %s (%s)", o.Pos, o.Rule, o.Func, o.Site, o.Detail))
			}
		}
		for _, f := range sub.R.Fatal {
			rep = append(rep, "checker failure: "+f)
		}
		sort.Strings(rep)
		out[pr] = rep
	}
	return out
}
