package rules

import (
	"go/types"
	"sort"

	"kyverif/internal/core"
)

func rets(fs ...string) []GateSpec {
	var out []GateSpec
	for _, f := range fs {
		out = append(out, GateSpec{Func: f})
	}
	return out
}

// methodsOf lists the short names of the given methods on every module
// implementor of an interface (discovered through go/types).
func methodsOf(p *core.Prog, pkgPath, iface string, methods ...string) []string {
	it := p.LookupInterface(pkgPath, iface)
	if it == nil {
		return nil
	}
	var out []string
	for _, nt := range p.Implementors(it) {
		for _, m := range methods {
			if fn := p.Method(nt, m); fn != nil && len(fn.Blocks) > 0 && fn.Synthetic == "" {
				out = append(out, core.Short(fn.String()))
			}
		}
	}
	sort.Strings(out)
	return out
}

var _ = types.Universe

// GateSpecs returns the gate rule instances of a property. Lists are filled
// from the repository: static entries name the verifier / decoder / recovery
// functions the property anchors; dynamic entries are discovered by type.
func GateSpecs(c *Ctx, prop string) []GateSpec {
	p := c.Prog("default")
	if p == nil {
		return nil
	}
	var s []GateSpec
	switch prop {
	case "C04":
		for _, f := range methodsOf(p, core.ModPath, "Point", "UnmarshalBinary", "UnmarshalFrom") {
			s = append(s, GateSpec{Func: f})
		}
		for _, f := range methodsOf(p, core.ModPath, "Scalar", "UnmarshalBinary", "UnmarshalFrom") {
			s = append(s, GateSpec{Func: f})
		}
		s = append(s, rets(
			"(*group/edwards25519.extendedGroupElement).FromBytes",
			"(*group/edwards25519vartime.curve).decodePoint",
			"(*group/edwards25519vartime.curve).solveForX",
			"(*group/p256.curvePoint).Valid",
			"(*group/p256.residuePoint).Valid",
			"(*pairing/bn254.gfP).Unmarshal",
			"(*sign/eddsa.EdDSA).UnmarshalBinary",
			"(*share/vss/pedersen.Deal).Unmarshal",
			"(*share/vss/rabin.Deal).Unmarshal",
			"internal.UnmarshalPriShare",
			"internal/protobuf.DecodeWithConstructors",
			"(*sign/tbls.scheme).IndexOf",
			"(sign/tbls.SigShare).Index",
			"(*group/mod.Int).UnmarshalBinary",
			// composite messages parsed from untrusted bytes
			"sign/schnorr.VerifyWithChecks", "sign/eddsa.VerifyWithChecks", "(*sign/bls.scheme).Verify", "sign/cosi.Verify",
			"(*sign/bdn.Scheme).AggregateSignatures", "(*sign/tbls.scheme).Recover", "(*sign/tbls.SigShare).Value",
			"encrypt/ecies.Decrypt", "sign/anon.Decrypt", "sign/anon.decryptKey", "sign/anon.Verify",
			"proof.HashVerify", "(*proof.hashVerifier).consumeMsg", "(*proof.hashVerifier).Get",
			"share/dkg/pedersen.VerifyPacketSignature",
		)...)
	case "C07":
		s = rets("share.RecoverSecret", "share.RecoverCommit", "share.RecoverPriPoly", "share.RecoverPubPoly", "(*share.PubPoly).Check",
			"(*share.PriPoly).Add", "(*share.PubPoly).Add", "share.xyScalar", "share.xyCommit")
		// which shares enter the interpolation: exactly today's conditions (nil entries, index range, first t)
		s = append(s, GateSpec{Func: "share.xyScalar", Sink: `mapupdate:`, NoRet: true, Exact: true},
			GateSpec{Func: "share.xyCommit", Sink: `mapupdate:`, NoRet: true, Exact: true})
	case "C08":
		s = rets("sign/schnorr.VerifyWithChecks", "sign/schnorr.Verify", "(*sign/schnorr.Scheme).Verify", "sign/schnorr.hash",
			"sign/eddsa.VerifyWithChecks", "sign/eddsa.Verify", "sign/anon.Verify",
			"(*group/edwards25519.point).IsCanonical", "(*group/edwards25519.point).HasSmallOrder", "(*group/edwards25519.scalar).IsCanonical",
			"sign/dss.Verify")
	case "C09":
		s = rets("(*sign/bls.scheme).Verify", "(*sign/tbls.scheme).Recover", "(*sign/tbls.scheme).VerifyPartial", "(*sign/tbls.scheme).VerifyRecovered",
			"(*sign/tbls.scheme).IndexOf", "(sign/tbls.SigShare).Index",
			"(*sign/bdn.Scheme).AggregateSignatures", "(*sign/bdn.Scheme).AggregatePublicKeys", "(*sign/bdn.Scheme).Verify", "sign/bdn.NewMask",
			"(*sign/bdn.Mask).SetBit", "(*sign/bdn.Mask).SetMask", "(*sign/bdn.Mask).Merge",
			"sign/cosi.Verify", "sign/cosi.NewMask", "(*sign/cosi.Mask).SetMask", "(*sign/cosi.Mask).SetBit",
			"(sign/cosi.ThresholdPolicy).Check", "(sign/cosi.CompletePolicy).Check", "(sign.ThresholdPolicy).Check", "(sign.CompletePolicy).Check")
		s = append(s, GateSpec{Func: "(*sign/tbls.scheme).Recover", Sink: "append:.*PubShare", NoRet: true})
	case "C10":
		for _, v := range []string{"pedersen", "rabin"} {
			agg := "(*share/vss/" + v + ".Aggregator)"
			if v == "rabin" {
				agg = "(*share/vss/" + v + ".aggregator)"
			}
			s = append(s, rets(agg+".VerifyDeal", "(*share/vss/"+v+".Verifier).decryptDeal", "(*share/vss/"+v+".Verifier).ProcessEncryptedDeal",
				agg+".verifyResponse", agg+".verifyJustification", agg+".addResponse", agg+".DealCertified",
				"share/vss/"+v+".RecoverSecret", "(*share/vss/"+v+".Dealer).ProcessResponse", "share/vss/"+v+".validT", "share/vss/"+v+".NewDealer", "share/vss/"+v+".NewVerifier")...)
			s = append(s, GateSpec{Func: agg + ".addResponse", Sink: `mapupdate:\.responses$`, NoRet: true})
			s = append(s, GateSpec{Func: agg + ".verifyJustification", Sink: `store:\.(Status)?Approved$`, NoRet: true})
			s = append(s, GateSpec{Func: agg + ".verifyResponse", Sink: `call:\.addResponse$`, NoRet: true})
		}
		s = append(s, rets("(*share/vss/rabin.aggregator).EnoughApprovals")...)
	case "C11":
		s = rets("share/dkg/pedersen.VerifyPacketSignature", "(*share/dkg/pedersen.Protocol).verify",
			"(*share/dkg/pedersen.DistKeyGenerator).computeResharingResult", "(*share/dkg/pedersen.DistKeyGenerator).computeDKGResult",
			"(*share/dkg/pedersen.DistKeyGenerator).ProcessDeals", "(*share/dkg/pedersen.DistKeyGenerator).ProcessResponses",
			"(*share/dkg/pedersen.DistKeyGenerator).ProcessJustifications", "(*share/dkg/pedersen.DistKeyGenerator).checkIfEvicted",
			"share/dkg/pedersen.NewDistKeyHandler", "(*share/dkg/pedersen.Config).CheckForDuplicates",
			"(*share/dkg/rabin.DistKeyGenerator).ProcessDeal", "(*share/dkg/rabin.DistKeyGenerator).ProcessResponse",
			"(*share/dkg/rabin.DistKeyGenerator).ProcessSecretCommits", "(*share/dkg/rabin.DistKeyGenerator).ProcessComplaintCommits",
			"(*share/dkg/rabin.DistKeyGenerator).ProcessReconstructCommits", "(*share/dkg/rabin.DistKeyGenerator).DistKeyShare",
			"(*share/dkg/rabin.DistKeyGenerator).Certified", "(*share/dkg/rabin.DistKeyGenerator).isInQUAL",
			// the phase machine: how many deals / responses / justifications end a phase early
			"(*share/dkg/pedersen.Protocol).startFast", "(*share/dkg/pedersen.Protocol).Start")
		s = append(s,
			GateSpec{Func: "(*share/dkg/pedersen.DistKeyGenerator).ProcessDeals", Sink: `mapupdate:\.validShares$`, NoRet: true},
			// a received deal is marked Success only behind all its checks (incl. the resharing consistency check)
			GateSpec{Func: "(*share/dkg/pedersen.DistKeyGenerator).ProcessDeals", Sink: `call:StatusMatrix\)\.Set$@DealerIndex.*ShareIndex, 0:Status\)$`, NoRet: true},
			GateSpec{Func: "(*share/dkg/pedersen.DistKeyGenerator).ProcessJustifications", Sink: `call:StatusMatrix\)\.Set$@DealerIndex.*ShareIndex, 0:Status\)$`, NoRet: true},
			GateSpec{Func: "(*share/dkg/pedersen.DistKeyGenerator).ProcessJustifications", Sink: `mapupdate:\.validShares$`, NoRet: true},
			GateSpec{Func: "(*share/dkg/pedersen.set).Push", Sink: `mapupdate:\.vals$`, NoRet: true},
			GateSpec{Func: "(*share/dkg/pedersen.DistKeyGenerator).computeDKGResult", Sink: `call:\(kyber\.Scalar\)\.Add$`, NoRet: true},
			GateSpec{Func: "(*share/dkg/rabin.DistKeyGenerator).ProcessDeal", Sink: `mapupdate:\.verifiers$`, NoRet: true},
			GateSpec{Func: "(*share/dkg/rabin.DistKeyGenerator).ProcessSecretCommits", Sink: `mapupdate:\.commitments$`, NoRet: true},
		)
	case "C12":
		s = rets("(*sign/dss.DSS).ProcessPartialSig", "(*sign/dss.DSS).Signature", "(*sign/dss.DSS).EnoughPartialSig", "sign/dss.NewDSS", "sign/dss.findPub", "sign/dss.Verify")
		s = append(s,
			GateSpec{Func: "(*sign/dss.DSS).ProcessPartialSig", Sink: `mapupdate:\.partialsIdx$`, NoRet: true},
			GateSpec{Func: "(*sign/dss.DSS).ProcessPartialSig", Sink: `append:\.partials$`, NoRet: true},
			// the signer's own partial must be recorded (index marked, partial stored) when it is produced
			GateSpec{Func: "(*sign/dss.DSS).PartialSig", Sink: `mapupdate:\.partialsIdx$`, NoRet: true},
			GateSpec{Func: "(*sign/dss.DSS).PartialSig", Sink: `append:\.partials$`, NoRet: true})
	case "C13":
		s = rets("(*proof/dleq.Proof).Verify", "share/pvss.VerifyEncShare", "share/pvss.VerifyDecShare", "share/pvss.DecShare",
			"share/pvss.VerifyEncShareBatch", "share/pvss.DecShareBatch", "share/pvss.VerifyDecShareBatch", "share/pvss.RecoverSecret",
			"share/pvss.computeGlobalChallenge")
		s = append(s,
			GateSpec{Func: "share/pvss.VerifyEncShareBatch", Sink: `append:`, NoRet: true},
			GateSpec{Func: "share/pvss.DecShareBatch", Sink: `append:`, NoRet: true},
			GateSpec{Func: "share/pvss.VerifyDecShareBatch", Sink: `append:`, NoRet: true})
	case "C14":
		s = rets("(*proof.repPred).verify", "(*proof.andPred).verify", "(*proof.orPred).verify", "(*proof.proof).verify",
			"(*proof.repPred).getCommits", "(*proof.andPred).getCommits", "(*proof.orPred).getCommits", "(*proof.proof).getResponses",
			"proof.HashVerify", "(*proof.hashVerifier).PubRand", "(*proof.hashVerifier).consumeMsg", "(*proof.hashVerifier).Get",
			"(*proof.hashProver).PubRand", "(*proof.hashProver).consumeMsg",
			"(*proof.deniableProver).challengeStep", "(*proof.deniableProver).proofStep", "(*proof.deniableProver).initStep")
		// every verifier slot starts as "not run" (so that a verifier that was never started cannot look like
		// success): no new condition on that default
		s = append(s, GateSpec{Func: "(*proof.deniableProver).run", Sink: `store:\.err\[.*=.*not run`, NoRet: true, Exact: true})
	case "C15":
		s = rets("(*shuffle.PairShuffle).Verify", "(*shuffle.SimpleShuffle).Verify", "shuffle.thver", "shuffle.BiffleVerifier", "shuffle.Verifier",
			"shuffle.GetSequenceVerifiable", "shuffle.assertXY", "shuffle.SequencesShuffle",
			// the biffle and the pair shuffle are verified through the predicate verifiers and the hash transcript
			// of package proof (anchored by C15 too): their gates are obligations of this property as well
			"(*proof.repPred).verify", "(*proof.andPred).verify", "(*proof.orPred).verify", "(*proof.proof).verify",
			"(*proof.repPred).getCommits", "(*proof.andPred).getCommits", "(*proof.orPred).getCommits", "(*proof.proof).getResponses",
			"proof.HashVerify", "(*proof.hashVerifier).PubRand", "(*proof.hashVerifier).consumeMsg", "(*proof.hashVerifier).Get")
	case "C16":
		s = rets("encrypt/ecies.Decrypt", "encrypt/ecies.deriveKey", "encrypt/ecies.Encrypt",
			"encrypt/ibe.DecryptCCAonG1", "encrypt/ibe.DecryptCCAonG2", "encrypt/ibe.EncryptCCAonG1", "encrypt/ibe.EncryptCCAonG2",
			"encrypt/ibe.EncryptCPAonG1", "encrypt/ibe.DecryptCPAonG1", "encrypt/ibe.gtToHash", "encrypt/ibe.h3", "encrypt/ibe.h4",
			"sign/anon.decryptKey", "sign/anon.Decrypt", "sign/anon.Encrypt")
	case "C17":
		s = rets("(*group/edwards25519.point).Embed", "(*group/edwards25519.point).Data", "(*group/edwards25519.point).Hash",
			"(*group/edwards25519vartime.curve).embed", "(*group/edwards25519vartime.curve).data",
			"(*group/p256.curvePoint).Embed", "(*group/p256.curvePoint).genPoint", "(*group/p256.curvePoint).Data",
			"(*group/p256.residuePoint).Embed", "(*group/p256.residuePoint).Data",
			"(*pairing/bn256.pointG1).Embed", "(*pairing/bn256.pointG1).Data", "(*pairing/bn256.pointG1).Hash")
	case "C06":
		for _, f := range methodsOf(p, core.ModPath+"/pairing", "Suite", "ValidatePairing", "Pair") {
			s = append(s, GateSpec{Func: f})
		}
		// CIRCL's batched pairing product must not be reached with an identity G1 operand
		s = append(s, GateSpec{Func: "(pairing/bls12381/circl.Suite).ValidatePairing", Sink: `call:ProdPairFrac$`, NoRet: true})
		// identity operands: every path on which an operand is the point at infinity passes SetOne
		s = append(s, GateSpec{Func: "pairing/bn256.optimalAte", Block: `call:\.SetOne$`}, GateSpec{Func: "pairing/bn254.optimalAte", Block: `call:\.SetOne$`})
	case "C19":
		s = rets("(*xof/blake2xb.xof).XORKeyStream", "(*xof/blake2xs.xof).XORKeyStream", "(*xof/keccak.xof).XORKeyStream",
			"(*util/random.randstream).XORKeyStream", "util/random.Int", "util/random.Bits")
		// "depends on every reader": whatever a reader delivered is mixed into the seed, unconditionally
		s = append(s, GateSpec{Func: "(*util/random.randstream).XORKeyStream", Sink: `call:\(\*bytes\.Buffer\)\.Write$`, NoRet: true, Exact: true})
	case "C02":
		s = rets("util/random.Int", "util/random.Bits", "(*group/mod.Int).UnmarshalBinary", "(*compatible.Int).SetBytesWithCheck",
			"(*group/edwards25519.scalar).IsCanonical", "(*group/edwards25519.scalar).UnmarshalBinary")
		s = append(s, GateSpec{Func: "(*group/mod.Int).UnmarshalBinary", Cfg: "ct"}, GateSpec{Func: "(*compatible.Int).SetBytesWithCheck", Cfg: "ct"})
	}
	return s
}
