// Package rules: per-property rule instances (slots filled from the
// repository) on top of the engines.
package rules

import (
	"encoding/json"
	"fmt"
	"os"
	"path/filepath"
	"sort"
	"sync"

	"kyverif/internal/apo"
	"kyverif/internal/core"
)

type Ctx struct {
	Prop  string
	Tier  string
	R     *core.Report
	progs map[string]*core.Prog
	mu    sync.Mutex
	Sum   map[string]*apo.Summarizer
	// Overlay: file contents replacing the working tree's (self-test of seeded changes)
	Overlay map[string][]byte
	// Shared: programs already loaded by a sibling context with the same overlay (kyverif try)
	Shared map[string]*core.Prog
}

func NewCtx(prop, tier string) *Ctx {
	return &Ctx{Prop: prop, Tier: tier, R: core.NewReport(prop, tier), progs: map[string]*core.Prog{}, Sum: map[string]*apo.Summarizer{}}
}

// Prog loads (once) the program under a configuration. A configuration that
// does not type-check fails the check.
func (c *Ctx) Prog(cfg string) *core.Prog {
	c.mu.Lock()
	defer c.mu.Unlock()
	if p, ok := c.progs[cfg]; ok {
		return p
	}
	var p *core.Prog
	var err error
	if sp, ok := c.Shared[cfg]; ok && sp != nil {
		p = sp
	} else {
		p, err = core.Load(core.Configs[cfg], c.Overlay)
		if err == nil && c.Shared != nil {
			c.Shared[cfg] = p
		}
	}
	if err != nil {
		c.R.Fatalf("configuration %s does not load: %v", cfg, err)
		c.progs[cfg] = nil
		return nil
	}
	c.progs[cfg] = p
	c.Sum[cfg] = apo.NewSummarizer()
	found := false
	for _, x := range c.R.Configs {
		if x == cfg {
			found = true
		}
	}
	if !found {
		c.R.Configs = append(c.R.Configs, cfg)
		sort.Strings(c.R.Configs)
	}
	c.R.Extra["packages_"+cfg] = len(p.Pkgs)
	return p
}

// Drop releases a configuration's program (memory).
func (c *Ctx) Drop(cfg string) {
	c.mu.Lock()
	defer c.mu.Unlock()
	delete(c.progs, cfg)
	delete(c.Sum, cfg)
}

type Property struct {
	ID          string
	Explanation string
	RuleText    string
	NotDecided  []string
	Trusted     []string
	Assumptions []string
	Run         func(c *Ctx)
}

var Registry = map[string]*Property{}

func Register(p *Property) { Registry[p.ID] = p }

func Run(prop, tier string) int {
	p := Registry[prop]
	if p == nil {
		fmt.Printf("unknown property %s\n", prop)
		return 2
	}
	c := NewCtx(prop, tier)
	c.R.Explanation = p.Explanation
	c.R.RuleText = p.RuleText
	c.R.NotDecided = p.NotDecided
	if t, ok := propText[prop]; ok {
		c.R.Explanation = t.Explanation
		c.R.NotDecided = t.NotDecided
	}
	// frozen minimum numbers of obligations per rule (a rule that matches too few sites passes vacuously)
	if b, err := os.ReadFile(filepath.Join(core.VerifDir(), "tables", "mincounts.json")); err == nil {
		all := map[string]map[string]int{}
		if json.Unmarshal(b, &all) == nil && tier != "selftest" {
			for rule, n := range all[prop] {
				c.R.MinCounts[rule] = n
			}
		}
	}
	if c.R.RuleText == "" || len(c.R.RuleText) < 60 {
		c.R.RuleText = p.RuleText + " — " + ruleGlossary
	}
	c.R.Trusted = p.Trusted
	c.R.Assumptions = append(append([]string{}, commonAssumptions...), p.Assumptions...)
	c.R.RuleDefs = ruleDefs
	func() {
		defer func() {
			if e := recover(); e != nil {
				c.R.Fatalf("checker panic: %v", e)
			}
		}()
		p.Run(c)
		if tier == "thorough" {
			SelfTest(c, p)
		}
	}()
	return c.R.Finish()
}

const ruleGlossary = "each obligation is one rule instance at one construct, keyed rule|function|site (canonical condition, region or call descriptor built from resolved callees, parameter indices, field names, constants); rules are defined in DESIGN.md section 3; an obligation is counted non-trivial when deciding it required evaluating at least one branch, store, call summary or dataflow fact (anchor and bookkeeping obligations are trivial)"
