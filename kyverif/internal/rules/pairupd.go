package rules

import (
	"regexp"

	"golang.org/x/tools/go/ssa"

	"kyverif/internal/apo"
)

// PairedUpdates (SH-PAIRUPD): in cosi.Mask.SetBit / SetMask every store that
// flips a bit of the participation mask is paired, in the same basic block,
// with the matching update of the aggregate public key: Add when the bit was
// 0 on every path to the block, Sub when it was 1; both directions exist.
func PairedUpdates(c *Ctx, cfg string) {
	p := c.Prog(cfg)
	if p == nil {
		return
	}
	bitWasZero := regexp.MustCompile(`^eq\(\(P0\.mask\[.*\]&.*\), 0\)$`)
	for _, name := range []string{"(*sign/cosi.Mask).SetBit", "(*sign/cosi.Mask).SetMask"} {
		fn := p.Fn(name)
		if fn == nil || len(fn.Blocks) == 0 {
			c.R.Unk("SH-PAIRUPD", name, "anchor", "", "function not found")
			continue
		}
		a := apo.Analyze(fn, apo.AcceptSpec{})
		d := apo.NewDescriber(fn)
		adds, subs := 0, 0
		for _, b := range fn.Blocks {
			flips := 0
			var flipPos ssa.Instruction
			nAdd, nSub := 0, 0
			for _, in := range b.Instrs {
				switch x := in.(type) {
				case *ssa.Store:
					if regexp.MustCompile(`^P0\.mask\[`).MatchString(d.Val(x.Addr)) {
						flips++
						flipPos = x
					}
				case *ssa.Call:
					if x.Call.IsInvoke() && regexp.MustCompile(`^P0\.AggregatePublic`).MatchString(d.Val(x.Call.Value)) {
						switch x.Call.Method.Name() {
						case "Add":
							nAdd++
						case "Sub":
							nSub++
						}
					}
				}
			}
			if flips == 0 {
				if nAdd+nSub > 0 {
					c.R.Bad("SH-PAIRUPD", name, "aggregate key updated without a mask flip", p.Pos(b.Instrs[0].Pos()), "AggregatePublic changes in a block that does not flip a mask bit")
				}
				continue
			}
			site := "mask bit flip paired with aggregate-key update"
			var was *bool
			for cond, v := range a.FactsAt(b) {
				if bitWasZero.MatchString(cond) {
					vv := v
					was = &vv
				}
			}
			switch {
			case flips != 1 || nAdd+nSub != 1:
				c.R.Bad("SH-PAIRUPD", name, site, p.Pos(flipPos.Pos()), "a mask-bit flip is not paired with exactly one AggregatePublic.Add/Sub in its block")
			case was == nil:
				c.R.Bad("SH-PAIRUPD", name, site, p.Pos(flipPos.Pos()), "the flip is not under a test of the bit's previous value")
			case *was && nAdd != 1:
				c.R.Bad("SH-PAIRUPD", name, site+" (0→1)", p.Pos(flipPos.Pos()), "bit goes 0→1 but the key is not added")
			case !*was && nSub != 1:
				c.R.Bad("SH-PAIRUPD", name, site+" (1→0)", p.Pos(flipPos.Pos()), "bit goes 1→0 but the key is not subtracted")
			case *was:
				adds++
				c.R.Ok("SH-PAIRUPD", name, site+" (0→1)", p.Pos(flipPos.Pos()), "Add under bit==0", true)
			default:
				subs++
				c.R.Ok("SH-PAIRUPD", name, site+" (1→0)", p.Pos(flipPos.Pos()), "Sub under bit!=0", true)
			}
		}
		if adds == 0 || subs == 0 {
			c.R.Bad("SH-PAIRUPD", name, "both directions present", p.FnPos(fn), "the function does not handle both 0→1 (Add) and 1→0 (Sub)")
		}
	}
}
