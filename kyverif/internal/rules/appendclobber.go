package rules

import (
	"fmt"
	"go/types"
	"strings"

	"golang.org/x/tools/go/ssa"

	"kyverif/internal/core"
	"kyverif/internal/efx"
)

// EFX-APPEND: `append(x[:k], more...)` writes `more` into x's backing array
// behind position k whenever the capacity allows it. That is the delete /
// reuse idiom when the result replaces x (`x.f = append(x.f[:k], …)`), and a
// silent overwrite of elements other holders of x still read when it does
// not (`for _, w := range append(ci[:choice], ci[choice+1:]...)` shifts the
// shared sub-challenge array of an Or-proof). Rule: every call of the
// builtin append whose first operand is a two-index re-slice with an upper
// bound (a three-index slice forces a copy and is fine) of storage that is
// not a fresh local object — it is reachable from a parameter, a receiver
// field or a global — must store its result back to the place x was loaded
// from. Expected count on the unchanged tree: zero such calls; every append
// examined is counted.
func AppendClobber(c *Ctx, cfg string, pkgs []string) {
	p := c.Prog(cfg)
	if p == nil {
		return
	}
	an := efx.NewAnalyzer(p)
	nApp, nResl := 0, 0
	for _, fn := range p.ModuleFuncs() {
		pp := core.Short(core.PkgPathOf(fn))
		ok := false
		for _, x := range pkgs {
			if pp == x || strings.HasPrefix(pp, x+"/") {
				ok = true
			}
		}
		if !ok || len(fn.Blocks) == 0 {
			continue
		}
		for _, b := range fn.Blocks {
			for _, in := range b.Instrs {
				call, isCall := in.(*ssa.Call)
				if !isCall {
					continue
				}
				bi, isB := call.Call.Value.(*ssa.Builtin)
				if !isB || bi.Name() != "append" || len(call.Call.Args) == 0 {
					continue
				}
				nApp++
				sl, isSl := call.Call.Args[0].(*ssa.Slice)
				if !isSl || sl.High == nil || sl.Max != nil {
					continue
				}
				if k, isC := sl.High.(*ssa.Const); isC && k.Value != nil && k.Value.String() == "0" && sl.Low == nil {
					// x[:0] — the reuse-as-scratch idiom keeps nothing of x; still a write into x's array
				}
				nResl++
				base := sl.X
				shared := ""
				for o := range an.OriginsOf(fn, base) {
					r := o.Root()
					if !strings.HasPrefix(r, "F:") && !strings.HasPrefix(r, "R") {
						if shared == "" || string(o) < shared {
							shared = string(o)
						}
					}
				}
				site := fmt.Sprintf("append(%s[:k], …)", describeBase(base))
				if shared == "" {
					c.R.Ok("EFX-APPEND", shortFn(fn), site, p.Pos(call.Pos()), "re-sliced operand is a fresh local object", true)
					continue
				}
				if storedBack(call, base) {
					c.R.Ok("EFX-APPEND", shortFn(fn), site, p.Pos(call.Pos()), "result replaces the re-sliced value (delete / reuse idiom)", true)
					continue
				}
				c.R.Bad("EFX-APPEND", shortFn(fn), site, p.Pos(call.Pos()),
					fmt.Sprintf("append into a re-slice of shared storage (%s) whose result does not replace it: the elements behind the cut are overwritten in the array every other holder of the slice still reads", shared))
			}
		}
	}
	c.R.Ok("EFX-APPEND", "module", fmt.Sprintf("packages %s", strings.Join(pkgs, ",")), "", fmt.Sprintf("%d append calls examined, %d on a bounded re-slice", nApp, nResl), false)
}

func describeBase(v ssa.Value) string {
	switch x := v.(type) {
	case *ssa.UnOp:
		return describeBase(x.X)
	case *ssa.FieldAddr:
		if st, ok := x.X.Type().Underlying().(*types.Pointer); ok {
			if s, ok := st.Elem().Underlying().(*types.Struct); ok {
				return describeBase(x.X) + "." + s.Field(x.Field).Name()
			}
		}
	case *ssa.Field:
		if s, ok := x.X.Type().Underlying().(*types.Struct); ok {
			return describeBase(x.X) + "." + s.Field(x.Field).Name()
		}
	case *ssa.Parameter:
		return x.Name()
	case *ssa.Global:
		return x.Name()
	}
	return "x"
}

// storedBack: the append result is stored to the address its base slice was loaded from.
func storedBack(call *ssa.Call, base ssa.Value) bool {
	ld, ok := base.(*ssa.UnOp)
	if !ok {
		return false
	}
	refs := call.Referrers()
	if refs == nil {
		return false
	}
	for _, r := range *refs {
		if st, ok := r.(*ssa.Store); ok && st.Val == call && sameAddr(st.Addr, ld.X) {
			return true
		}
	}
	return false
}

func sameAddr(a, b ssa.Value) bool {
	if a == b {
		return true
	}
	switch x := a.(type) {
	case *ssa.FieldAddr:
		if y, ok := b.(*ssa.FieldAddr); ok {
			return x.Field == y.Field && sameAddr(x.X, y.X)
		}
	case *ssa.UnOp:
		if y, ok := b.(*ssa.UnOp); ok {
			return x.Op == y.Op && sameAddr(x.X, y.X)
		}
	case *ssa.IndexAddr:
		if y, ok := b.(*ssa.IndexAddr); ok {
			return sameAddr(x.X, y.X) && sameAddr(x.Index, y.Index)
		}
	}
	return false
}
