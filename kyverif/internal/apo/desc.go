// Package apo: accept-path obligations. Canonical descriptors of SSA values
// (built from resolved entities: callee identity, parameter index, field
// names, constants – never from source text or positions), gate discovery
// and dependence sets.
package apo

import (
	"fmt"
	"regexp"
	"go/constant"
	"go/token"
	"go/types"
	"sort"
	"strings"

	"golang.org/x/tools/go/ssa"

	"kyverif/internal/core"
)

const maxDepth = 4

type Describer struct {
	fn    *ssa.Function
	stack map[ssa.Value]bool
	inOps bool
	// MakeLen: render the length of make([]T, n) (data-flow descriptors of the stream wrappers)
	MakeLen bool
}

func NewDescriber(fn *ssa.Function) *Describer {
	return &Describer{fn: fn, stack: map[ssa.Value]bool{}}
}

func typeStr(t types.Type) string { return core.Short(types.TypeString(t, nil)) }

// CalleeName gives the resolved identity of a call's target.
func CalleeName(c *ssa.CallCommon) string {
	if c.IsInvoke() {
		return "(" + typeStr(c.Value.Type()) + ")." + c.Method.Name()
	}
	switch f := c.Value.(type) {
	case *ssa.Function:
		return FuncName(f)
	case *ssa.Builtin:
		return f.Name()
	case *ssa.MakeClosure:
		return FuncName(f.Fn.(*ssa.Function))
	}
	return ""
}

// FuncName is the short qualified name; instantiations of generics are
// reported under their origin so that type arguments do not enter keys.
func FuncName(f *ssa.Function) string {
	if f.Origin() != nil {
		f = f.Origin()
	}
	return core.Short(f.String())
}

func (d *Describer) Val(v ssa.Value) string { return d.val(v, 0) }

func (d *Describer) val(v ssa.Value, depth int) string {
	if v == nil {
		return "_"
	}
	if depth > maxDepth {
		return "…"
	}
	if _, isSlice := v.Type().Underlying().(*types.Slice); isSlice && !d.MakeLen {
		if _, isConst := v.(*ssa.Const); !isConst && localBuffer(v, 0) {
			return d.bufDesc(v, depth)
		}
	}
	if s, ok := d.induction(v, depth); ok {
		return s
	}
	switch x := v.(type) {
	case *ssa.Parameter:
		for i, p := range x.Parent().Params {
			if p == x {
				if x.Parent() != d.fn {
					return fmt.Sprintf("outer.P%d", i)
				}
				return fmt.Sprintf("P%d", i)
			}
		}
		return "P?"
	case *ssa.FreeVar:
		return "free(" + x.Name() + ")"
	case *ssa.Const:
		return constStr(x)
	case *ssa.Global:
		return "global(" + core.Short(x.String()) + ")"
	case *ssa.Function:
		return "func(" + FuncName(x) + ")"
	case *ssa.Builtin:
		return x.Name()
	case *ssa.Alloc:
		if src := copiedFrom(x); src != nil && !d.stack[x] {
			// a local holding a copy of one value (`for _, n := range nodes`, `tmp := *p`): named by what
			// was copied, so that the element of a ranged-over list keeps the identity of the list
			d.stack[x] = true
			s := d.val(src, depth)
			delete(d.stack, x)
			return s + d.objOps(x, depth)
		}
		return "alloc(" + typeStr(x.Type().Underlying().(*types.Pointer).Elem()) + ")" + d.objOps(x, depth)
	case *ssa.FieldAddr:
		st := x.X.Type().Underlying().(*types.Pointer).Elem().Underlying().(*types.Struct)
		if al, ok := x.X.(*ssa.Alloc); ok {
			// a field of a struct built in place, set exactly once: the value it was set to
			if v := fieldSetOnce(al, x.Field); v != nil && !d.stack[x] {
				d.stack[x] = true
				s := d.val(v, depth)
				delete(d.stack, x)
				return s
			}
		}
		return d.val(x.X, depth) + "." + st.Field(x.Field).Name()
	case *ssa.Field:
		st := x.X.Type().Underlying().(*types.Struct)
		return d.val(x.X, depth) + "." + st.Field(x.Field).Name()
	case *ssa.IndexAddr:
		return d.val(x.X, depth) + "[" + d.val(x.Index, depth+1) + "]"
	case *ssa.Index:
		return d.val(x.X, depth) + "[" + d.val(x.Index, depth+1) + "]"
	case *ssa.Lookup:
		return d.val(x.X, depth) + "{" + d.val(x.Index, depth+1) + "}"
	case *ssa.Slice:
		s := func(v ssa.Value) string {
			if v == nil {
				return ""
			}
			return d.val(v, depth+1)
		}
		lo, hi := x.Low, x.High
		// the whole of an array (`arr[:]`, `arr[0:len]`, `make([]T, N)` with constant N) is "[:]"
		if c, ok := lo.(*ssa.Const); ok && c.Value != nil && c.Value.Kind() == constant.Int && c.Value.String() == "0" {
			lo = nil
		}
		if pt, ok := x.X.Type().Underlying().(*types.Pointer); ok && hi != nil {
			if at, ok := pt.Elem().Underlying().(*types.Array); ok {
				if c, ok := hi.(*ssa.Const); ok && c.Value != nil && c.Value.Kind() == constant.Int && c.Value.String() == fmt.Sprint(at.Len()) {
					hi = nil
				}
			}
		}
		return d.val(x.X, depth) + "[" + s(lo) + ":" + s(hi) + "]"
	case *ssa.UnOp:
		switch x.Op {
		case token.MUL:
			return d.val(x.X, depth)
		case token.NOT:
			return "!" + d.val(x.X, depth)
		case token.SUB:
			return "-" + d.val(x.X, depth)
		case token.XOR:
			return "^" + d.val(x.X, depth)
		case token.ARROW:
			return "<-" + d.val(x.X, depth)
		}
	case *ssa.BinOp:
		if x.Op == token.SUB {
			// (one of a, b) - c is one of a-c, b-c, and a-a is 0: a clamp written as
			// `pad, ofs = act, 0; if pad < min { pad, ofs = min, min-act }` and as
			// `pad := max(act, min); ofs := pad - act` have one descriptor
			xs, ys := d.val(x.X, depth+1), d.val(x.Y, depth+1)
			if ops := choiceOperands(x.X); len(ops) > 1 && !strings.HasPrefix(ys, "phi{") {
				var out []string
				for _, o := range ops {
					if o == x.Y {
						out = append(out, "0")
					} else {
						out = append(out, "("+d.val(o, depth+2)+"-"+d.val(x.Y, depth+2)+")")
					}
				}
				return mkPhi(out)
			}
			return "(" + xs + "-" + ys + ")"
		}
		return "(" + d.val(x.X, depth+1) + x.Op.String() + d.val(x.Y, depth+1) + ")"
	case *ssa.Convert:
		return d.val(x.X, depth)
	case *ssa.ChangeType:
		return d.val(x.X, depth)
	case *ssa.ChangeInterface:
		return d.val(x.X, depth)
	case *ssa.MakeInterface:
		return d.val(x.X, depth)
	case *ssa.SliceToArrayPointer:
		return d.val(x.X, depth)
	case *ssa.MultiConvert:
		return d.val(x.X, depth)
	case *ssa.TypeAssert:
		return d.val(x.X, depth) + ".(" + typeStr(x.AssertedType) + ")"
	case *ssa.Extract:
		if ta, ok := x.Tuple.(*ssa.TypeAssert); ok && x.Index == 0 {
			return d.val(ta, depth)
		}
		if sel, ok := x.Tuple.(*ssa.Select); ok {
			switch {
			case x.Index == 0:
				return "selcase" // which case fired: depends on the textual order of the cases
			case x.Index == 1:
				return "selok"
			default:
				k := 0
				for _, st := range sel.States {
					if st.Dir == types.RecvOnly {
						if k == x.Index-2 {
							return "<-" + d.val(st.Chan, depth+1)
						}
						k++
					}
				}
			}
		}
		if call, ok := x.Tuple.(*ssa.Call); ok {
			if s, ok := d.inlineHelper(&call.Call, x.Index, depth); ok {
				return s
			}
		}
		return d.val(x.Tuple, depth) + fmt.Sprintf("#%d", x.Index)
	case *ssa.Call:
		if x.Call.Signature().Results().Len() == 1 {
			if s, ok := d.inlineHelper(&x.Call, 0, depth); ok {
				return s
			}
		}
		if isOverwritingMutator(&x.Call) {
			// the value IS the result of this operation; what the same scratch object receives later
			// are other values with their own descriptors
			return d.call(&x.Call, depth)
		}
		return d.call(&x.Call, depth) + d.objOps(x, depth)
	case *ssa.MakeSlice:
		if d.MakeLen {
			return "make(" + typeStr(x.Type()) + ", " + d.val(x.Len, depth+1) + ")"
		}
		return "make(" + typeStr(x.Type()) + ")"
	case *ssa.MakeMap:
		return "make(" + typeStr(x.Type()) + ")"
	case *ssa.MakeChan:
		return "make(" + typeStr(x.Type()) + ")"
	case *ssa.MakeClosure:
		return "closure(" + FuncName(x.Fn.(*ssa.Function)) + ")"
	case *ssa.Range:
		return "range(" + d.val(x.X, depth+1) + ")"
	case *ssa.Next:
		return "next(" + d.val(x.Iter, depth+1) + ")"
	case *ssa.Phi:
		if d.stack[x] {
			return "phi~"
		}
		// flatten nests of phis (loop rotation, range vs index loops give different nestings of the
		// same merge): the value is one of the non-phi leaves; references back into the nest are "phi~"
		nest := map[*ssa.Phi]bool{}
		var leaves []ssa.Value
		var walk func(p *ssa.Phi)
		walk = func(p *ssa.Phi) {
			if nest[p] {
				return
			}
			nest[p] = true
			for _, e := range p.Edges {
				if q, ok := e.(*ssa.Phi); ok {
					if !d.stack[q] {
						walk(q)
					}
					continue
				}
				leaves = append(leaves, e)
			}
		}
		walk(x)
		for p := range nest {
			d.stack[p] = true
		}
		defer func() {
			for p := range nest {
				delete(d.stack, p)
			}
		}()
		set := map[string]bool{}
		for _, e := range leaves {
			set[d.val(e, depth+1)] = true
		}
		var parts []string
		for s := range set {
			parts = append(parts, s)
		}
		sort.Strings(parts)
		for _, s := range parts {
			if strings.HasPrefix(s, "phi{") {
				return mkPhi(parts) // a leaf that is itself a choice (min/max, a distributed difference)
			}
		}
		return "phi{" + strings.Join(parts, "|") + "}"
	}
	return fmt.Sprintf("?%T", v)
}

// induction: a loop counter, possibly offset by a constant, is described by
// where it starts and how it steps ("ind(0,+1)"), whichever loop form produced
// it: `for i := range xs` (go/ssa counts from -1 and uses i+1) and
// `for i := 0; i < n; i++` give the same descriptor.
func (d *Describer) induction(v ssa.Value, depth int) (string, bool) {
	intConst := func(v ssa.Value) (int64, bool) {
		c, ok := v.(*ssa.Const)
		if !ok || c.Value == nil || c.Value.Kind() != constant.Int {
			return 0, false
		}
		n, exact := constant.Int64Val(c.Value)
		return n, exact
	}
	off := int64(0)
	for k := 0; k < 3; k++ {
		b, ok := v.(*ssa.BinOp)
		if !ok || (b.Op != token.ADD && b.Op != token.SUB) {
			break
		}
		if n, ok := intConst(b.Y); ok {
			if b.Op == token.ADD {
				off += n
			} else {
				off -= n
			}
			v = b.X
			continue
		}
		if n, ok := intConst(b.X); ok && b.Op == token.ADD {
			off += n
			v = b.Y
			continue
		}
		break
	}
	phi, ok := v.(*ssa.Phi)
	if !ok {
		return "", false
	}
	// distinct incoming values (a `continue` adds a second back edge carrying the same step)
	var edges []ssa.Value
	for _, e := range phi.Edges {
		dup := false
		for _, o := range edges {
			if o == e {
				dup = true
			}
		}
		if !dup {
			edges = append(edges, e)
		}
	}
	if len(edges) != 2 {
		return "", false
	}
	for i, e := range edges {
		b, ok := e.(*ssa.BinOp)
		if !ok || (b.Op != token.ADD && b.Op != token.SUB) || b.X != ssa.Value(phi) {
			continue
		}
		step, ok := intConst(b.Y)
		if !ok {
			continue
		}
		if b.Op == token.SUB {
			step = -step
		}
		start := edges[1-i]
		if n, ok := intConst(start); ok {
			return fmt.Sprintf("ind(%d,%+d)", n+off, step), true
		}
		if d.stack[phi] {
			return "", false
		}
		d.stack[phi] = true
		ss := d.val(start, depth+1)
		delete(d.stack, phi)
		if off != 0 {
			ss = fmt.Sprintf("(%s%+d)", ss, off)
		}
		return fmt.Sprintf("ind(%s,%+d)", ss, step), true
	}
	return "", false
}

// fieldSetOnce: the one value stored into field k of a locally built struct
// (nil when it is stored never, several times, or the struct is also written as a whole).
func fieldSetOnce(a *ssa.Alloc, k int) ssa.Value {
	refs := a.Referrers()
	if refs == nil {
		return nil
	}
	var v ssa.Value
	for _, r := range *refs {
		switch x := r.(type) {
		case *ssa.Store:
			if x.Addr == ssa.Value(a) {
				return nil
			}
		case *ssa.FieldAddr:
			if x.Field != k || x.Referrers() == nil {
				continue
			}
			for _, u := range *x.Referrers() {
				if st, ok := u.(*ssa.Store); ok && st.Addr == ssa.Value(x) {
					if v != nil {
						return nil
					}
					v = st.Val
				}
			}
		}
	}
	return v
}

// isOverwritingMutator: an interface call of an overwriting mutator of kyber.Point / kyber.Scalar.
func isOverwritingMutator(c *ssa.CallCommon) bool {
	if !c.IsInvoke() || !overwriting[c.Method.Name()] {
		return false
	}
	ts := types.TypeString(c.Value.Type(), nil)
	return ts == core.ModPath+".Point" || ts == core.ModPath+".Scalar"
}

// copiedFrom: the alloc is written by exactly one whole-value store and never
// through its fields or elements: it is a copy of that value.
func copiedFrom(a *ssa.Alloc) ssa.Value {
	refs := a.Referrers()
	if refs == nil {
		return nil
	}
	elemWritten := func(addr ssa.Value) bool {
		if fr := addr.Referrers(); fr != nil {
			for _, u := range *fr {
				if st, ok := u.(*ssa.Store); ok && st.Addr == addr {
					return true
				}
			}
		}
		return false
	}
	var src ssa.Value
	for _, r := range *refs {
		switch x := r.(type) {
		case *ssa.Store:
			if x.Addr != a {
				continue // the address itself stored somewhere: still the same contents
			}
			if src != nil {
				return nil
			}
			src = x.Val
		case *ssa.FieldAddr:
			if elemWritten(x) {
				return nil
			}
		case *ssa.IndexAddr:
			if elemWritten(x) {
				return nil
			}
		case *ssa.MakeClosure:
			// a captured variable: the closure must not assign it
			fn, _ := x.Fn.(*ssa.Function)
			for i, b := range x.Bindings {
				if b == ssa.Value(a) && (fn == nil || i >= len(fn.FreeVars) || freeVarAssigned(fn, fn.FreeVars[i], 0)) {
					return nil
				}
			}
		}
	}
	if src == nil {
		return nil
	}
	if _, isConst := src.(*ssa.Const); isConst {
		return nil
	}
	return src
}

// freeVarAssigned: the closure (or a closure nested in it) stores to the captured variable.
func freeVarAssigned(fn *ssa.Function, fv *ssa.FreeVar, depth int) bool {
	if depth > 3 {
		return true
	}
	if refs := fv.Referrers(); refs != nil {
		for _, r := range *refs {
			switch x := r.(type) {
			case *ssa.Store:
				if x.Addr == ssa.Value(fv) {
					return true
				}
			case *ssa.MakeClosure:
				g, _ := x.Fn.(*ssa.Function)
				for i, b := range x.Bindings {
					if b == ssa.Value(fv) && (g == nil || i >= len(g.FreeVars) || freeVarAssigned(g, g.FreeVars[i], depth+1)) {
						return true
					}
				}
			}
		}
	}
	return false
}

// overwriting mutators of kyber.Point / kyber.Scalar: the result is a function
// of the operands only, whichever scratch object receives it.
var overwriting = map[string]bool{"Add": true, "Sub": true, "Neg": true, "Mul": true, "Set": true, "Div": true, "Inv": true,
	"SetBytes": true, "SetInt64": true, "Zero": true, "One": true, "Pick": true}

// localBuffer: a slice assembled inside the function (make / append / merge of those), as opposed
// to a parameter, a field or the result of a call.
func localBuffer(v ssa.Value, depth int) bool {
	if depth > 6 {
		return false
	}
	switch x := v.(type) {
	case *ssa.MakeSlice:
		return true
	case *ssa.Slice:
		return localBuffer(x.X, depth+1)
	case *ssa.Phi:
		for _, e := range x.Edges {
			if _, ok := e.(*ssa.Phi); ok {
				continue
			}
			if c, ok := e.(*ssa.Const); ok && c.Value == nil {
				continue
			}
			if !localBuffer(e, depth+1) {
				return false
			}
		}
		return true
	case *ssa.Call:
		if b, ok := x.Call.Value.(*ssa.Builtin); ok && b.Name() == "append" {
			return true
		}
	}
	return false
}

// choiceOperands: the values a min/max call or a two-way merge chooses from.
func choiceOperands(v ssa.Value) []ssa.Value {
	switch x := v.(type) {
	case *ssa.Call:
		if b, ok := x.Call.Value.(*ssa.Builtin); ok && (b.Name() == "min" || b.Name() == "max") {
			return x.Call.Args
		}
	case *ssa.Phi:
		for _, e := range x.Edges {
			if _, nested := e.(*ssa.Phi); nested {
				return nil
			}
		}
		return x.Edges
	}
	return nil
}

// normPhi flattens every nested choice of a descriptor ("phi{a|phi{b|c}}" is "phi{a|b|c}"),
// wherever it occurs in the text; how many merges or helper returns a value went through is
// not part of a key.
func normPhi(s string) string {
	if !strings.Contains(s, "phi{phi{") && !strings.Contains(s, "|phi{") {
		return s
	}
	var b strings.Builder
	for i := 0; i < len(s); {
		if strings.HasPrefix(s[i:], "phi{") {
			depth, j := 0, i+3
			for ; j < len(s); j++ {
				if s[j] == '{' || s[j] == '(' || s[j] == '[' {
					depth++
				} else if s[j] == '}' || s[j] == ')' || s[j] == ']' {
					depth--
					if depth == 0 {
						break
					}
				}
			}
			if j < len(s) {
				if parts, ok := phiParts(s[i : j+1]); ok {
					for k := range parts {
						parts[k] = normPhi(parts[k])
					}
					if m := mkPhi(parts); strings.HasPrefix(m, "phi{") {
						b.WriteString(m)
					} else {
						b.WriteString("phi{" + m + "}") // a one-way merge stays written as one
					}
					i = j + 1
					continue
				}
			}
		}
		b.WriteByte(s[i])
		i++
	}
	return b.String()
}

// phiParts splits a "phi{a|b|…}" descriptor at its top level.
func phiParts(s string) ([]string, bool) {
	if !strings.HasPrefix(s, "phi{") || !strings.HasSuffix(s, "}") {
		return nil, false
	}
	body := s[4 : len(s)-1]
	var parts []string
	depth, start := 0, 0
	for i, r := range body {
		switch r {
		case '(', '{', '[':
			depth++
		case ')', '}', ']':
			depth--
			if depth < 0 {
				return nil, false // "phi{…}…}" is not one phi
			}
		case '|':
			if depth == 0 {
				parts = append(parts, body[start:i])
				start = i + 1
			}
		}
	}
	if depth != 0 {
		return nil, false
	}
	return append(parts, body[start:]), true
}

// mkPhi: "one of these values", nested choices flattened, duplicates removed, sorted.
func mkPhi(parts []string) string {
	set := map[string]bool{}
	for _, p := range parts {
		if sub, ok := phiParts(p); ok {
			for _, q := range sub {
				set[q] = true
			}
			continue
		}
		set[p] = true
	}
	var out []string
	for p := range set {
		out = append(out, p)
	}
	sort.Strings(out)
	if len(out) == 1 {
		return out[0]
	}
	return "phi{" + strings.Join(out, "|") + "}"
}

func (d *Describer) call(c *ssa.CallCommon, depth int) string {
	if b, ok := c.Value.(*ssa.Builtin); ok && (b.Name() == "min" || b.Name() == "max") && len(c.Args) >= 1 {
		// the builtin and the hand-written clamp (`if a < b { a = b }`) both yield one of their operands
		var parts []string
		for _, a := range c.Args {
			parts = append(parts, d.val(a, depth+1))
		}
		return mkPhi(parts)
	}
	if b, ok := c.Value.(*ssa.Builtin); ok && (b.Name() == "len" || b.Name() == "cap") && len(c.Args) == 1 && localBuffer(c.Args[0], 0) {
		// how a local buffer was put together (make+copy or append) is not part of the key
		return b.Name() + "(local)"
	}
	if b, ok := c.Value.(*ssa.Builtin); ok && (b.Name() == "len" || b.Name() == "cap") && len(c.Args) == 1 {
		// also when the buffer comes out of an inlined helper
		if a := d.val(c.Args[0], depth+1); strings.HasPrefix(a, "phi{append(") || strings.HasPrefix(a, "phi{make(") || strings.HasPrefix(a, "make(") || strings.HasPrefix(a, "append(") {
			return b.Name() + "(local)"
		}
	}
	var args []string
	if c.IsInvoke() {
		drop := false
		if ts := types.TypeString(c.Value.Type(), nil); (ts == core.ModPath+".Point" || ts == core.ModPath+".Scalar") && overwriting[c.Method.Name()] {
			drop = true
			for _, a := range c.Args {
				if isNilConst(a) {
					drop = false // Mul(s, nil): the receiver's group selects the base point
				}
			}
		}
		if !drop {
			args = append(args, d.val(c.Value, depth+1))
		}
	}
	for _, a := range c.Args {
		args = append(args, d.val(a, depth+1))
	}
	name := CalleeName(c)
	if name == "" {
		name = "dyn[" + d.val(c.Value, depth+1) + "]"
	}
	// symmetric predicates: operand order does not enter the key
	if isSymmetric(name) && len(args) == 2 {
		sort.Strings(args)
	}
	return name + "(" + strings.Join(args, ", ") + ")"
}

func isSymmetric(name string) bool {
	return strings.HasSuffix(name, ").Equal") || name == "bytes.Equal" || name == "crypto/subtle.ConstantTimeCompare" ||
		name == "crypto/hmac.Equal"
}

func constStr(c *ssa.Const) string {
	if c.Value == nil {
		if _, ok := c.Type().Underlying().(*types.Basic); ok {
			return "zero"
		}
		return "nil"
	}
	s := c.Value.ExactString()
	if c.Value.Kind() == constant.String {
		s = constant.StringVal(c.Value)
		if len(s) > 40 {
			s = s[:40] + "…"
		}
		s = fmt.Sprintf("%q", s)
	}
	if nt, ok := c.Type().(*types.Named); ok {
		return s + ":" + nt.Obj().Name()
	}
	return s
}

// Cond is a canonical branch condition: Desc holds when Neg is false.
type Cond struct {
	Desc string
	Neg  bool
}

// CanonCond strips negations and normalises comparisons.
func (d *Describer) CanonCond(v ssa.Value) Cond {
	neg := false
	for {
		if u, ok := v.(*ssa.UnOp); ok && u.Op == token.NOT {
			neg = !neg
			v = u.X
			continue
		}
		break
	}
	if b, ok := v.(*ssa.BinOp); ok {
		xn, yn := isNilConst(b.X), isNilConst(b.Y)
		switch b.Op {
		case token.EQL, token.NEQ:
			if b.Op == token.NEQ {
				neg = !neg
			}
			if xn || yn {
				o := b.X
				if xn {
					o = b.Y
				}
				return Cond{"isnil(" + d.Val(o) + ")", neg}
			}
			// bool compared with constant
			if c, ok := b.Y.(*ssa.Const); ok && c.Value != nil && c.Value.Kind() == constant.Bool {
				cc := d.CanonCond(b.X)
				if !constant.BoolVal(c.Value) {
					neg = !neg
				}
				return Cond{cc.Desc, cc.Neg != neg}
			}
			ops := []string{d.Val(b.X), d.Val(b.Y)}
			sort.Strings(ops)
			return Cond{"eq(" + ops[0] + ", " + ops[1] + ")", neg}
		case token.LSS:
			return Cond{"lt(" + d.Val(b.X) + ", " + d.Val(b.Y) + ")", neg}
		case token.GTR:
			return Cond{"lt(" + d.Val(b.Y) + ", " + d.Val(b.X) + ")", neg}
		case token.LEQ:
			return Cond{"lt(" + d.Val(b.Y) + ", " + d.Val(b.X) + ")", !neg}
		case token.GEQ:
			return Cond{"lt(" + d.Val(b.X) + ", " + d.Val(b.Y) + ")", !neg}
		}
	}
	return Cond{d.Val(v), neg}
}

func isNilConst(v ssa.Value) bool {
	c, ok := v.(*ssa.Const)
	if !ok || c.Value != nil {
		return false
	}
	switch c.Type().Underlying().(type) {
	case *types.Basic:
		return c.Type().Underlying().(*types.Basic).Kind() == types.UntypedNil
	}
	return true
}

// objOps describes a fresh object (call result or local) by the set of
// operations applied to it as a receiver: "{UnmarshalBinary(@, P3[:n])|...}".
// This tells apart the many results of one factory (g.Point(), g.Scalar(),
// sha512.New()) by what is loaded into them, independent of statement order.
// objOpsSkip: read-only methods say nothing about what an object holds.
var objOpsSkip = map[string]bool{"Equal": true, "String": true, "MarshalBinary": true, "MarshalTo": true, "MarshalSize": true, "Sum": true,
	"Clone": true, "IsCanonical": true, "HasSmallOrder": true, "IsInCorrectGroup": true, "Data": true, "Size": true, "Len": true, "Bytes": true,
	"Check": true, "Eval": true, "Cmp": true, "Sign": true}

func (d *Describer) objOps(v ssa.Value, depth int) string {
	// shown wherever the object appears (independent of nesting depth, so that the same object has
	// the same descriptor inline and inside an extracted helper); its arguments have a fixed small budget
	if d.stack[v] || d.inOps || depth >= maxDepth || !refLikeT(v.Type()) {
		return ""
	}
	d.inOps = true
	defer func() { d.inOps = false }()
	refs := v.Referrers()
	if refs == nil {
		return ""
	}
	d.stack[v] = true
	defer delete(d.stack, v)
	set := map[string]bool{}
	for _, r := range *refs {
		ci, ok := r.(ssa.CallInstruction)
		if !ok {
			continue
		}
		c := ci.Common()
		var rest []ssa.Value
		if c.IsInvoke() && c.Value == v {
			rest = c.Args
		} else if !c.IsInvoke() && len(c.Args) > 0 && c.Args[0] == v && c.Signature().Recv() != nil {
			rest = c.Args[1:]
		} else {
			continue
		}
		if len(rest) == 0 {
			continue
		}
		if c.Method != nil && objOpsSkip[c.Method.Name()] {
			continue
		}
		if f := c.StaticCallee(); f != nil && objOpsSkip[f.Name()] {
			continue
		}
		name := c.Method
		var mname string
		if name != nil {
			mname = name.Name()
		} else if f := c.StaticCallee(); f != nil {
			mname = f.Name()
		}
		var as []string
		for _, a := range rest {
			as = append(as, d.val(a, maxDepth-1))
		}
		set[mname+"(@, "+strings.Join(as, ", ")+")"] = true
	}
	// a struct built in place: what its fields are set to is part of what the object is
	if al, ok := v.(*ssa.Alloc); ok {
		if st, ok := al.Type().Underlying().(*types.Pointer).Elem().Underlying().(*types.Struct); ok {
			for _, r := range *refs {
				fa, ok := r.(*ssa.FieldAddr)
				if !ok || fa.X != v || fa.Referrers() == nil {
					continue
				}
				for _, u := range *fa.Referrers() {
					if sto, ok := u.(*ssa.Store); ok && sto.Addr == ssa.Value(fa) {
						set["."+st.Field(fa.Field).Name()+"="+d.val(sto.Val, maxDepth-1)] = true
					}
				}
			}
		}
	}
	if len(set) == 0 {
		return ""
	}
	var parts []string
	for s := range set {
		parts = append(parts, s)
	}
	sort.Strings(parts)
	return "{" + strings.Join(parts, "|") + "}"
}

func refLikeT(t types.Type) bool {
	switch t.Underlying().(type) {
	case *types.Pointer, *types.Interface:
		return true
	}
	return false
}

// CallDesc renders a call instruction's common part.
func (d *Describer) CallDesc(c *ssa.CallCommon) string { return d.call(c, 0) }

// ---- helper inlining --------------------------------------------------------
//
// A call of a small unexported in-module helper is described by what the
// helper returns (its parameters replaced by the call's arguments), so that
// extracting a few lines into a helper, or inlining one, does not change the
// canonical descriptors.

var inlineBusy = map[*ssa.Function]bool{}

// Inlinable reports whether f is a small unexported function of the module.
func Inlinable(f *ssa.Function) bool {
	if f == nil || len(f.Blocks) == 0 || len(f.Blocks) > 60 || !core.InModule(f) || f.Synthetic != "" {
		return false
	}
	n := f.Name()
	if f.Parent() == nil && (n == "" || !(n[0] >= 'a' && n[0] <= 'z')) {
		return false // exported functions keep their identity; closures are part of their parent
	}
	return !inlineBusy[f]
}

// SubstFree replaces the free-variable tokens of a closure's descriptor by
// the caller's descriptors of the bound variables.
func (d *Describer) SubstFree(callee ssa.Value, desc string) string {
	mc, ok := callee.(*ssa.MakeClosure)
	if !ok || !strings.Contains(desc, "free(") {
		return desc
	}
	fn, _ := mc.Fn.(*ssa.Function)
	if fn == nil {
		return desc
	}
	for i, fv := range fn.FreeVars {
		if i < len(mc.Bindings) {
			desc = strings.ReplaceAll(desc, "free("+fv.Name()+")", d.val(mc.Bindings[i], 1))
		}
	}
	return desc
}

var paramTok = regexp.MustCompile(`\bP(\d+)\b`)

// SubstParams replaces the parameter tokens P<i> of a callee descriptor by the
// caller's argument descriptors.
func SubstParams(desc string, args []string) string {
	return ResortSymmetric(lenOfLocal(substParams(desc, args)))
}

// lenOfLocal: after a substitution, `len(buf{…})` / `cap(buf{…})` of a buffer
// assembled in the caller is `len(local)`, as it is when described in place.
func lenOfLocal(desc string) string {
	for _, fn := range []string{"len", "cap"} {
		pat := fn + "(buf{"
		from := 0
		for {
			i := strings.Index(desc[from:], pat)
			if i < 0 {
				break
			}
			i += from
			// closing brace of buf{…}
			depth, end := 0, -1
			for k := i + len(pat) - 1; k < len(desc); k++ {
				if desc[k] == '{' {
					depth++
				} else if desc[k] == '}' {
					depth--
					if depth == 0 {
						end = k
						break
					}
				}
			}
			if end < 0 || end+1 >= len(desc) || desc[end+1] != ')' {
				from = i + len(pat)
				continue
			}
			desc = desc[:i] + fn + "(local)" + desc[end+2:]
			from = i
		}
	}
	return desc
}

// ResortSymmetric re-sorts the two operands of a top-level symmetric predicate
// ("eq(a, b)", "X.Equal(a, b)") after a substitution changed them.
func ResortSymmetric(desc string) string {
	open := strings.Index(desc, "(")
	if open < 0 || !strings.HasSuffix(desc, ")") {
		return desc
	}
	name := desc[:open]
	if strings.HasPrefix(desc, "(") {
		// "(T).Method(args)": find the call's opening parenthesis after the receiver type
		end := matchParen(desc, 0)
		if end < 0 || end+1 >= len(desc) {
			return desc
		}
		rest := desc[end+1:]
		o2 := strings.Index(rest, "(")
		if o2 < 0 {
			return desc
		}
		name = desc[:end+1+o2]
		open = end + 1 + o2
	}
	if name != "eq" && !isSymmetric(name) {
		return desc
	}
	if matchParen(desc, open) != len(desc)-1 {
		return desc
	}
	inner := desc[open+1 : len(desc)-1]
	// split at the top-level ", "
	depth, cut := 0, -1
	for i := 0; i < len(inner); i++ {
		switch inner[i] {
		case '(', '[', '{':
			depth++
		case ')', ']', '}':
			depth--
		case ',':
			if depth == 0 && i+1 < len(inner) && inner[i+1] == ' ' {
				if cut >= 0 {
					return desc // more than two operands
				}
				cut = i
			}
		}
	}
	if cut < 0 {
		return desc
	}
	a, b := inner[:cut], inner[cut+2:]
	if a > b {
		a, b = b, a
	}
	return name + "(" + a + ", " + b + ")"
}

func matchParen(s string, open int) int {
	depth := 0
	for i := open; i < len(s); i++ {
		switch s[i] {
		case '(':
			depth++
		case ')':
			depth--
			if depth == 0 {
				return i
			}
		}
	}
	return -1
}

func substParams(desc string, args []string) string {
	return paramTok.ReplaceAllStringFunc(desc, func(m string) string {
		var i int
		fmt.Sscanf(m, "P%d", &i)
		if i < len(args) {
			return args[i]
		}
		return m
	})
}

func (d *Describer) inlineHelper(c *ssa.CallCommon, k int, depth int) (string, bool) {
	if c.IsInvoke() {
		return "", false
	}
	f := c.StaticCallee()
	if !Inlinable(f) || f == d.fn {
		return "", false
	}
	res := f.Signature.Results()
	if k >= res.Len() || isErrT(res.At(k).Type()) {
		return "", false
	}
	errIdx := -1
	if n := res.Len(); n > 0 && isErrT(res.At(n-1).Type()) {
		errIdx = n - 1
	}
	inlineBusy[f] = true
	defer delete(inlineBusy, f)
	sd := NewDescriber(f)
	set := map[string]bool{}
	for _, b := range f.Blocks {
		for _, in := range b.Instrs {
			r, ok := in.(*ssa.Return)
			if !ok {
				continue
			}
			if errIdx >= 0 && errIdx != k {
				// skip error paths: the error result is a constructor call / sentinel / non-nil by construction
				if ev := r.Results[errIdx]; !isNilConst(ev) {
					if _, isCall := ev.(*ssa.Call); isCall {
						continue
					}
					if _, isMk := ev.(*ssa.MakeInterface); isMk {
						continue
					}
					if u, ok := ev.(*ssa.UnOp); ok {
						if _, isG := u.X.(*ssa.Global); isG {
							continue
						}
					}
				}
			}
			v := r.Results[k]
			if cst, ok := v.(*ssa.Const); ok && (cst.Value == nil) {
				continue // zero value on a failing path
			}
			set[sd.val(v, depth)] = true
		}
	}
	if len(set) == 0 || len(set) > 4 {
		return "", false
	}
	var body string
	if len(set) == 1 {
		for s := range set {
			body = s
		}
	} else {
		// several returns: the result is one of them, like a phi of the inlined code
		var parts []string
		for s := range set {
			parts = append(parts, s)
		}
		sort.Strings(parts)
		body = "phi{" + strings.Join(parts, "|") + "}"
	}
	var args []string
	for _, a := range c.Args {
		args = append(args, d.val(a, depth+1))
	}
	out := normPhi(d.SubstFree(c.Value, SubstParams(body, args)))
	if uninformative(out) {
		// a verdict that is only a local flag / constants says nothing: keep the call itself as the key
		return "", false
	}
	return out, true
}

var uninfTok = regexp.MustCompile(`alloc\([^()]*\)|phi[{~]|[{}|!]|\b(true|false|nil|zero)\b|-?\b\d+\b(:\w+)?|isnil\(|\)|\s`)

// uninformative: the descriptor names no parameter, field, call or global — only local cells,
// merges and constants.
func uninformative(desc string) bool {
	return strings.TrimSpace(uninfTok.ReplaceAllString(desc, "")) == ""
}

// Uninformative is exported for the gate tables.
func Uninformative(desc string) bool { return uninformative(desc) }

func isErrT(t types.Type) bool { return types.Identical(t, types.Universe.Lookup("error").Type()) }

// bufDesc describes a slice assembled inside the function by WHAT was put into
// it — the operands appended to it or copied into it — not by how (make+copy,
// append onto an empty slice, which loop shape): "buf{src1|src2}".
func (d *Describer) bufDesc(v ssa.Value, depth int) string {
	if d.stack[v] {
		return "buf~"
	}
	seen := map[ssa.Value]bool{}
	srcs := map[string]bool{}
	var marked []ssa.Value
	var walk func(x ssa.Value)
	walk = func(x ssa.Value) {
		if x == nil || seen[x] {
			return
		}
		seen[x] = true
		d.stack[x] = true
		marked = append(marked, x)
		switch y := x.(type) {
		case *ssa.Phi:
			for _, e := range y.Edges {
				walk(e)
			}
		case *ssa.Slice:
			walk(y.X)
		case *ssa.MakeSlice:
			// copy(dst, src) with dst rooted at this make
			if refs := y.Referrers(); refs != nil {
				for _, r := range *refs {
					d.copySources(r, y, srcs, depth)
				}
			}
		case *ssa.Call:
			if b, ok := y.Call.Value.(*ssa.Builtin); ok && b.Name() == "append" {
				walk(y.Call.Args[0])
				for _, a := range y.Call.Args[1:] {
					if !seen[a] && !(func() bool { _, isP := a.(*ssa.Phi); return isP && d.stack[a] })() {
						if localBuffer(a, 0) && !d.stack[a] {
							srcs[d.val(a, depth+1)] = true
						} else {
							srcs[d.val(a, depth+1)] = true
						}
					}
				}
			}
		}
	}
	walk(v)
	defer func() {
		for _, m := range marked {
			delete(d.stack, m)
		}
	}()
	var parts []string
	for s := range srcs {
		if s != "nil" {
			parts = append(parts, s)
		}
	}
	sort.Strings(parts)
	return "buf{" + strings.Join(parts, "|") + "}"
}

func (d *Describer) copySources(r ssa.Instruction, mk *ssa.MakeSlice, srcs map[string]bool, depth int) {
	switch x := r.(type) {
	case *ssa.Call:
		if b, ok := x.Call.Value.(*ssa.Builtin); ok && b.Name() == "copy" && len(x.Call.Args) == 2 {
			dst := x.Call.Args[0]
			for {
				if sl, ok := dst.(*ssa.Slice); ok {
					dst = sl.X
					continue
				}
				break
			}
			if dst == ssa.Value(mk) {
				srcs[d.val(x.Call.Args[1], depth+1)] = true
			}
		}
	case *ssa.Slice:
		if refs := x.Referrers(); refs != nil {
			for _, rr := range *refs {
				if c, ok := rr.(*ssa.Call); ok {
					if b, ok := c.Call.Value.(*ssa.Builtin); ok && b.Name() == "copy" && len(c.Call.Args) == 2 && c.Call.Args[0] == ssa.Value(x) {
						srcs[d.val(c.Call.Args[1], depth+1)] = true
					}
				}
			}
		}
	}
}
