package apo

import (
	"fmt"
	"go/constant"
	"go/token"
	"go/types"
	"sort"
	"strings"

	"golang.org/x/tools/go/ssa"
)

type tri int8

const (
	tU tri = iota
	tT
	tF
)

func (t tri) not() tri {
	switch t {
	case tT:
		return tF
	case tF:
		return tT
	}
	return tU
}
func triOf(b bool) tri {
	if b {
		return tT
	}
	return tF
}

// fact key: either "v is nil" (isnil) or "v is true".
type fkey struct {
	v     ssa.Value
	isnil bool
}
type factset map[fkey]bool

func factOf(cond ssa.Value) (fkey, bool, bool) {
	val := true
	for {
		if u, ok := cond.(*ssa.UnOp); ok && u.Op == token.NOT {
			val = !val
			cond = u.X
			continue
		}
		break
	}
	if b, ok := cond.(*ssa.BinOp); ok && (b.Op == token.EQL || b.Op == token.NEQ) {
		xn, yn := isNilConst(b.X), isNilConst(b.Y)
		if xn != yn {
			o := b.X
			if xn {
				o = b.Y
			}
			if b.Op == token.NEQ {
				val = !val
			}
			return fkey{stripIface(o), true}, val, true
		}
	}
	if _, ok := cond.(*ssa.Const); ok {
		return fkey{}, false, false
	}
	return fkey{cond, false}, val, true
}

func stripIface(v ssa.Value) ssa.Value {
	for {
		switch x := v.(type) {
		case *ssa.ChangeInterface:
			v = x.X
			continue
		case *ssa.ChangeType:
			v = x.X
			continue
		}
		return v
	}
}

// Sink designates instructions that count as accept outcomes besides returns.
type Sink func(ssa.Instruction) bool

type AcceptSpec struct {
	NoRet bool // returns are not accept outcomes (sink-only analysis)
	Sink  Sink
	// Block: instructions that discharge a path (must-pass-through rules): a
	// path that executes one is not an accept outcome any more.
	Block Sink
}

type Gate struct {
	Cond     string   `json:"cond"`
	FailWhen bool     `json:"fail_when"`
	MustPass bool     `json:"must_pass"`
	Deps     []string `json:"deps,omitempty"`
	// Once: no accept outcome is reachable even when the check fails only at ONE evaluation and
	// later evaluations (further loop iterations) may pass: a single failure is fatal.
	Once bool      `json:"once,omitempty"`
	Pos  token.Pos `json:"-"`
	val      ssa.Value
}

type FnAnalysis struct {
	Fn     *ssa.Function
	D      *Describer
	Spec   AcceptSpec
	mustIn map[*ssa.BasicBlock]factset
	resIdx int // index of verdict result, -1 none
	resErr bool
	Deps   *DepAnalysis
	depth  int
	storedFields map[string]bool
}

func Analyze(fn *ssa.Function, spec AcceptSpec) *FnAnalysis {
	a := &FnAnalysis{Fn: fn, D: NewDescriber(fn), Spec: spec, resIdx: -1}
	res := fn.Signature.Results()
	if n := res.Len(); n > 0 {
		if isErrorType(res.At(n - 1).Type()) {
			a.resIdx, a.resErr = n-1, true
		} else {
			for i := n - 1; i >= 0; i-- {
				if isBool(res.At(i).Type()) {
					a.resIdx = i
					break
				}
			}
		}
	}
	a.computeMustFacts()
	return a
}

func isErrorType(t types.Type) bool {
	return types.Identical(t, types.Universe.Lookup("error").Type())
}
func isBool(t types.Type) bool {
	b, ok := t.Underlying().(*types.Basic)
	return ok && b.Info()&types.IsBoolean != 0
}
func isNilable(t types.Type) bool {
	switch t.Underlying().(type) {
	case *types.Pointer, *types.Interface, *types.Slice, *types.Map, *types.Chan, *types.Signature:
		return true
	}
	return false
}

func (a *FnAnalysis) computeMustFacts() {
	fn := a.Fn
	a.mustIn = map[*ssa.BasicBlock]factset{}
	if len(fn.Blocks) == 0 {
		return
	}
	a.mustIn[fn.Blocks[0]] = factset{}
	changed := true
	for changed {
		changed = false
		for _, b := range fn.Blocks {
			if b.Index == 0 {
				continue
			}
			var in factset
			first := true
			for _, p := range b.Preds {
				pin, ok := a.mustIn[p]
				if !ok {
					continue // unreached so far: top
				}
				out := factset{}
				for k, v := range pin {
					out[k] = v
				}
				if ifi, ok := p.Instrs[len(p.Instrs)-1].(*ssa.If); ok && p.Succs[0] != p.Succs[1] {
					if k, val, ok := factOf(ifi.Cond); ok {
						if p.Succs[0] == b {
							out[k] = val
						} else {
							out[k] = !val
						}
					}
				}
				if first {
					in, first = out, false
				} else {
					for k, v := range in {
						if ov, ok := out[k]; !ok || ov != v {
							delete(in, k)
						}
					}
				}
			}
			if first {
				continue
			}
			old, had := a.mustIn[b]
			if !had || len(old) != len(in) {
				a.mustIn[b] = in
				changed = true
			} else {
				for k, v := range in {
					if ov, ok := old[k]; !ok || ov != v {
						a.mustIn[b] = in
						changed = true
						break
					}
				}
			}
		}
	}
}

// assumption: value r is assumed to be val (bool r: r==val; nilable r: (r==nil)==val)
type assume struct {
	r   ssa.Value
	val bool
}

type env map[*ssa.Phi]tri

func (e env) key() string {
	if len(e) == 0 {
		return ""
	}
	var ps []string
	for p, t := range e {
		ps = append(ps, fmt.Sprintf("%s=%d", p.Name(), t))
	}
	sort.Strings(ps)
	return strings.Join(ps, ",")
}

type evalCtx struct {
	a     *FnAnalysis
	as    *assume
	env   env
	blk   *ssa.BasicBlock
	guard map[ssa.Value]bool
	// ctx: truth of loop-invariant flags (fields of a parameter never stored in this function)
	// known where the check under test sits; a later re-evaluation of the same flag has the same value
	ctx map[string]bool
}

func (c *evalCtx) fact(k fkey) tri {
	if fs := c.a.mustIn[c.blk]; fs != nil {
		if v, ok := fs[k]; ok {
			return triOf(v)
		}
	}
	if c.ctx != nil && !k.isnil && c.a.invariantFlag(k.v) {
		if v, ok := c.ctx[c.a.D.Val(k.v)]; ok {
			return triOf(v)
		}
	}
	return tU
}

func (c *evalCtx) evalBool(v ssa.Value) tri {
	if c.as != nil && v == c.as.r && isBool(v.Type()) {
		return triOf(c.as.val)
	}
	switch x := v.(type) {
	case *ssa.Const:
		if x.Value != nil && x.Value.Kind() == constant.Bool {
			return triOf(constant.BoolVal(x.Value))
		}
		return tU
	case *ssa.UnOp:
		if x.Op == token.NOT {
			return c.evalBool(x.X).not()
		}
	case *ssa.Phi:
		if t, ok := c.env[x]; ok {
			return t
		}
		return c.joinPhi(x, true)
	case *ssa.BinOp:
		if x.Op == token.EQL || x.Op == token.NEQ {
			xn, yn := isNilConst(x.X), isNilConst(x.Y)
			if xn != yn {
				o := x.X
				if xn {
					o = x.Y
				}
				t := c.evalNil(o)
				if x.Op == token.NEQ {
					t = t.not()
				}
				return t
			}
			if isBool(x.X.Type()) {
				l, r := c.evalBool(x.X), c.evalBool(x.Y)
				if l != tU && r != tU {
					t := triOf(l == r)
					if x.Op == token.NEQ {
						t = t.not()
					}
					return t
				}
			}
		}
	}
	return c.fact(fkey{v, false})
}

func (c *evalCtx) joinPhi(p *ssa.Phi, asBool bool) tri {
	if c.guard[p] {
		return tU
	}
	c.guard[p] = true
	defer delete(c.guard, p)
	var res tri
	for i, e := range p.Edges {
		var t tri
		if asBool {
			t = c.evalBoolStatic(e)
		} else {
			t = c.evalNilStatic(e)
		}
		if t == tU {
			return tU
		}
		if i == 0 {
			res = t
		} else if res != t {
			return tU
		}
	}
	return res
}

// static variants ignore the assumption-derived environment for phi edges that
// are not in env (their incoming path is unknown).
func (c *evalCtx) evalBoolStatic(v ssa.Value) tri { return c.evalBool(v) }
func (c *evalCtx) evalNilStatic(v ssa.Value) tri  { return c.evalNil(v) }

var nonNilCtors = map[string]bool{
	"errors.New": true, "fmt.Errorf": true, "errors.Join": false,
}

func (c *evalCtx) evalNil(v ssa.Value) tri {
	v = stripIface(v)
	if c.as != nil && v == stripIface(c.as.r) && !isBool(v.Type()) {
		return triOf(c.as.val)
	}
	switch x := v.(type) {
	case *ssa.Const:
		if x.Value == nil {
			return tT
		}
		return tF
	case *ssa.MakeInterface:
		return tF
	case *ssa.Alloc, *ssa.FieldAddr, *ssa.IndexAddr, *ssa.MakeSlice, *ssa.MakeMap, *ssa.MakeClosure, *ssa.Function, *ssa.Global:
		return tF
	case *ssa.Call:
		if f := x.Call.StaticCallee(); f != nil && nonNilCtors[FuncName(f)] {
			return tF
		}
	case *ssa.UnOp:
		if x.Op == token.MUL {
			if g, ok := x.X.(*ssa.Global); ok && isErrorType(x.Type()) && strings.HasPrefix(g.Name(), "Err") || ok && isErrorType(x.Type()) && strings.HasPrefix(g.Name(), "err") {
				return tF // sentinel error variable
			}
		}
	case *ssa.Phi:
		if t, ok := c.env[x]; ok {
			return t
		}
		return c.joinPhi(x, false)
	}
	return c.fact(fkey{v, true})
}

// acceptAt decides whether instruction in (at block b) is an accept outcome
// under the context.
func (c *evalCtx) acceptReturn(ret *ssa.Return) bool {
	a := c.a
	if a.Spec.NoRet {
		return false
	}
	if a.resIdx < 0 {
		return true
	}
	v := ret.Results[a.resIdx]
	if a.resErr {
		return c.evalNil(v) != tF
	}
	return c.evalBool(v) != tF
}

// reach explores the CFG from instruction index `from` of block start under
// the assumption and reports whether an accept outcome is reachable.
func (a *FnAnalysis) reach(as *assume, start *ssa.BasicBlock, from int) bool {
	return a.reachMode(as, start, from, false)
}

// reachMode: with once, the assumption holds for the evaluation under test
// only; when the walk executes the check again it is unknown from then on.
// invariantFlag: v is a load of a bool field reached from a parameter through
// fields only, and no instruction of the function stores to a field of that name.
func (a *FnAnalysis) invariantFlag(v ssa.Value) bool {
	u, ok := v.(*ssa.UnOp)
	if !ok || u.Op != token.MUL || !isBool(v.Type()) {
		return false
	}
	fa, ok := u.X.(*ssa.FieldAddr)
	if !ok {
		return false
	}
	name := fa.X.Type().Underlying().(*types.Pointer).Elem().Underlying().(*types.Struct).Field(fa.Field).Name()
	x := fa.X
	for {
		switch y := x.(type) {
		case *ssa.Parameter:
			goto rooted
		case *ssa.FieldAddr:
			x = y.X
		case *ssa.UnOp:
			x = y.X
		default:
			return false
		}
	}
rooted:
	if a.storedFields == nil {
		a.storedFields = map[string]bool{}
		for _, b := range a.Fn.Blocks {
			for _, in := range b.Instrs {
				if st, ok := in.(*ssa.Store); ok {
					if f, ok := st.Addr.(*ssa.FieldAddr); ok {
						a.storedFields[f.X.Type().Underlying().(*types.Pointer).Elem().Underlying().(*types.Struct).Field(f.Field).Name()] = true
					}
				}
			}
		}
	}
	return !a.storedFields[name]
}

func (a *FnAnalysis) reachMode(as *assume, start *ssa.BasicBlock, from int, once bool) bool {
	// loop-invariant flags known at the check keep their value when re-evaluated
	ctx := map[string]bool{}
	for k, v := range a.mustIn[start] {
		if !k.isnil && a.invariantFlag(k.v) {
			ctx[a.D.Val(k.v)] = v
		}
	}
	type st struct {
		b       *ssa.BasicBlock
		e       env
		idx     int
		dropped bool
	}
	seen := map[string]bool{}
	work := []st{{start, env{}, from, false}}
	for len(work) > 0 {
		s := work[len(work)-1]
		work = work[:len(work)-1]
		k := fmt.Sprintf("%d|%d|%v|%s", s.b.Index, s.idx, s.dropped, s.e.key())
		if seen[k] {
			continue
		}
		seen[k] = true
		cas := as
		if s.dropped {
			cas = nil
		}
		c := &evalCtx{a: a, as: cas, env: s.e, blk: s.b, guard: map[ssa.Value]bool{}, ctx: ctx}
		dropped := s.dropped
		instrs := s.b.Instrs
		stop := false
		for i := s.idx; i < len(instrs) && !stop; i++ {
			in := instrs[i]
			if once && !dropped && as != nil {
				if v, ok := in.(ssa.Value); ok && v == as.r {
					// the check is evaluated again: this later evaluation is not assumed to fail
					dropped = true
					c = &evalCtx{a: a, as: nil, env: s.e, blk: s.b, guard: map[ssa.Value]bool{}, ctx: ctx}
				}
			}
			if a.Spec.Block != nil && a.Spec.Block(in) {
				stop = true
				break
			}
			if a.Spec.Sink != nil && a.Spec.Sink(in) {
				return true
			}
			switch t := in.(type) {
			case *ssa.Return:
				if c.acceptReturn(t) {
					return true
				}
				stop = true
			case *ssa.Panic:
				stop = true
			case *ssa.If:
				tv := c.evalBool(t.Cond)
				if tv != tF {
					work = append(work, st{s.b.Succs[0], a.edgeEnv(c, s.b, s.b.Succs[0]), 0, dropped})
				}
				if tv != tT {
					work = append(work, st{s.b.Succs[1], a.edgeEnv(c, s.b, s.b.Succs[1]), 0, dropped})
				}
				stop = true
			case *ssa.Jump:
				work = append(work, st{s.b.Succs[0], a.edgeEnv(c, s.b, s.b.Succs[0]), 0, dropped})
				stop = true
			}
		}
	}
	return false
}

func (a *FnAnalysis) edgeEnv(c *evalCtx, from, to *ssa.BasicBlock) env {
	idx := -1
	for i, p := range to.Preds {
		if p == from {
			idx = i
			break
		}
	}
	ne := env{}
	for p, t := range c.env {
		ne[p] = t
	}
	var upd []struct {
		p *ssa.Phi
		t tri
	}
	for _, in := range to.Instrs {
		p, ok := in.(*ssa.Phi)
		if !ok {
			break
		}
		var t tri
		if isBool(p.Type()) {
			t = c.evalBool(p.Edges[idx])
		} else if isNilable(p.Type()) {
			t = c.evalNil(p.Edges[idx])
		} else {
			continue
		}
		upd = append(upd, struct {
			p *ssa.Phi
			t tri
		}{p, t})
	}
	for _, u := range upd {
		if u.t == tU {
			delete(ne, u.p)
		} else {
			ne[u.p] = u.t
		}
	}
	return ne
}

// acceptBlocks lists blocks containing an accept outcome with no assumption.
func (a *FnAnalysis) acceptSites() []ssa.Instruction {
	var out []ssa.Instruction
	for _, b := range a.Fn.Blocks {
		if _, reached := a.mustIn[b]; !reached {
			continue
		}
		c := &evalCtx{a: a, env: env{}, blk: b, guard: map[ssa.Value]bool{}}
		for _, in := range b.Instrs {
			if a.Spec.Sink != nil && a.Spec.Sink(in) {
				out = append(out, in)
			}
			if r, ok := in.(*ssa.Return); ok && c.acceptReturn(r) {
				out = append(out, in)
			}
		}
	}
	return out
}

func instrIndex(in ssa.Instruction) int {
	for i, x := range in.Block().Instrs {
		if x == in {
			return i
		}
	}
	return -1
}

// Gates discovers every check value of the function that gates the accept
// outcomes: under the assumption that it fails (every time it is evaluated)
// no accept outcome is reachable from it, while it is reachable when it passes.
func (a *FnAnalysis) Gates() []Gate {
	fn := a.Fn
	accepts := a.acceptSites()
	byKey := map[string]*Gate{}
	for _, b := range fn.Blocks {
		if _, reached := a.mustIn[b]; !reached {
			continue
		}
		for i, in := range b.Instrs {
			v, ok := in.(ssa.Value)
			if !ok || !a.candidate(v) {
				continue
			}
			if refs := v.Referrers(); refs == nil || len(*refs) == 0 {
				continue
			}
			if bo, ok := v.(*ssa.BinOp); ok && (a.isInduction(bo.X) || a.isInduction(bo.Y)) {
				continue // loop counter test: not a check of the input
			}
			if bo, ok := v.(*ssa.BinOp); ok && (isSelectCase(bo.X) || isSelectCase(bo.Y)) {
				continue // dispatch on which select case fired
			}
			if !isBool(v.Type()) {
				c0 := &evalCtx{a: a, env: env{}, blk: b, guard: map[ssa.Value]bool{}}
				if c0.evalNil(v) == tF {
					continue // definitely non-nil error value (constructor / sentinel): not a check
				}
			}
			var failVal bool
			okT := a.reach(&assume{v, true}, b, i+1)
			okF := a.reach(&assume{v, false}, b, i+1)
			if okT == okF {
				continue
			}
			failVal = !okT // the assumption value that cannot reach accept
			var cond Cond
			if isBool(v.Type()) {
				cond = a.D.CanonCond(v)
				// v==failVal fails; in terms of Desc: Desc == (failVal != Neg)
				cond = Cond{cond.Desc, false}
				cc := a.D.CanonCond(v)
				failVal = failVal != cc.Neg
			} else {
				cond = Cond{"isnil(" + a.D.Val(v) + ")", false}
			}
			must := true
			for _, acc := range accepts {
				ab := acc.Block()
				if ab == b {
					if instrIndex(acc) < i {
						must = false
					}
					continue
				}
				if !b.Dominates(ab) {
					must = false
				}
			}
			if len(accepts) == 0 {
				must = false
			}
			if uninformative(cond.Desc) {
				continue // a bare local flag or a merge of constants: no semantic identity to freeze
			}
			k := fmt.Sprintf("%s|%v", cond.Desc, failVal)
			pos := in.Pos()
			if ex, ok := in.(*ssa.Extract); ok && !pos.IsValid() {
				pos = ex.Tuple.Pos()
			}
			g := &Gate{Cond: cond.Desc, FailWhen: failVal, MustPass: must, Pos: pos, val: v}
			// fail-once: the failing polarity in terms of the assumed value of v is !okT ? true : false
			g.Once = !a.reachMode(&assume{v, !okT}, b, i+1, true)
			if a.Deps != nil {
				g.Deps = a.Deps.Of(v)
			}
			if old, ok := byKey[k]; ok {
				old.MustPass = old.MustPass || must
				old.Once = old.Once || g.Once
				old.Deps = unionStr(old.Deps, g.Deps)
				continue
			}
			byKey[k] = g
		}
	}
	// a gate that is the verdict of a small unexported helper carries the helper's own gates
	if a.depth < 2 {
		var own []string
		for k := range byKey {
			own = append(own, k)
		}
		sort.Strings(own)
		for _, ok := range own {
			g := byKey[ok]
			call, k := helperCall(g.val)
			if call == nil || g.FailWhen {
				continue // only when the helper's SUCCESS (nil error / true) is what the caller requires
			}
			f := call.Call.StaticCallee()
			if !Inlinable(f) || f == fn {
				continue
			}
			inlineBusy[f] = true
			ha := Analyze(f, AcceptSpec{})
			ha.depth = a.depth + 1
			hg := ha.Gates()
			delete(inlineBusy, f)
			_ = k
			var args []string
			deps := append([]string(nil), g.Deps...)
			for _, arg := range call.Call.Args {
				args = append(args, a.D.Val(arg))
				if a.Deps != nil {
					deps = unionStr(deps, a.Deps.Of(arg))
				}
			}
			g.Deps = unionStr(g.Deps, deps)
			for _, h := range hg {
				cond := a.D.SubstFree(call.Call.Value, SubstParams(h.Cond, args))
				key := fmt.Sprintf("%s|%v", cond, h.FailWhen)
				if old, ok := byKey[key]; ok {
					old.MustPass = old.MustPass || (g.MustPass && h.MustPass)
					old.Once = old.Once || (g.Once && h.Once)
					continue
				}
				byKey[key] = &Gate{Cond: cond, FailWhen: h.FailWhen, MustPass: g.MustPass && h.MustPass, Once: g.Once && h.Once, Pos: g.Pos, Deps: deps}
			}
		}
	}
	// a stage helper without a verdict result (`data := r.gather()`): the checks that make it panic /
	// not return are checks of the caller (a long function turned into a driver calling stages)
	if a.depth < 2 {
		for _, b := range fn.Blocks {
			if _, reached := a.mustIn[b]; !reached {
				continue
			}
			for i, in := range b.Instrs {
				ci, ok := in.(ssa.CallInstruction)
				if !ok || ci.Common().IsInvoke() {
					continue
				}
				f := ci.Common().StaticCallee()
				if !Inlinable(f) || f == fn || hasVerdict(f) {
					continue
				}
				if _, isGo := in.(*ssa.Go); isGo {
					continue
				}
				if _, isDefer := in.(*ssa.Defer); isDefer {
					continue
				}
				// the helper's checks guard what comes AFTER the call
				if !a.reach(nil, b, i+1) {
					continue
				}
				inlineBusy[f] = true
				ha := Analyze(f, AcceptSpec{})
				ha.depth = a.depth + 1
				hg := ha.Gates()
				delete(inlineBusy, f)
				if len(hg) == 0 {
					continue
				}
				must := len(accepts) > 0
				for _, acc := range accepts {
					ab := acc.Block()
					if ab == b {
						if instrIndex(acc) <= i {
							must = false
						}
						continue
					}
					if !b.Dominates(ab) {
						must = false
					}
				}
				var args []string
				var deps []string
				for _, arg := range ci.Common().Args {
					args = append(args, a.D.Val(arg))
					if a.Deps != nil {
						deps = unionStr(deps, a.Deps.Of(arg))
					}
				}
				for _, h := range hg {
					cond := a.D.SubstFree(ci.Common().Value, SubstParams(h.Cond, args))
					key := fmt.Sprintf("%s|%v", cond, h.FailWhen)
					if old, ok := byKey[key]; ok {
						old.MustPass = old.MustPass || (must && h.MustPass)
						continue
					}
					byKey[key] = &Gate{Cond: cond, FailWhen: h.FailWhen, MustPass: must && h.MustPass, Once: h.Once, Pos: in.Pos(), Deps: deps, val: nil}
				}
			}
		}
	}
	var out []Gate
	for _, g := range byKey {
		out = append(out, *g)
	}
	sort.Slice(out, func(i, j int) bool {
		if out[i].Cond != out[j].Cond {
			return out[i].Cond < out[j].Cond
		}
		return !out[i].FailWhen && out[j].FailWhen
	})
	return out
}


// JointMust: every path from the entry to an accept outcome evaluates at
// least one of the given checks (the same check made on each branch).
func (a *FnAnalysis) JointMust(gs []Gate) bool {
	stop := map[*ssa.BasicBlock]bool{}
	for _, g := range gs {
		in, ok := g.val.(ssa.Instruction)
		if !ok || in.Block() == nil {
			return false
		}
		stop[in.Block()] = true
	}
	accepts := a.acceptSites()
	if len(accepts) == 0 || len(a.Fn.Blocks) == 0 {
		return false
	}
	acc := map[*ssa.BasicBlock]bool{}
	for _, x := range accepts {
		acc[x.Block()] = true
	}
	seen := map[*ssa.BasicBlock]bool{}
	work := []*ssa.BasicBlock{a.Fn.Blocks[0]}
	for len(work) > 0 {
		b := work[len(work)-1]
		work = work[:len(work)-1]
		if seen[b] || stop[b] {
			continue
		}
		seen[b] = true
		if acc[b] {
			return false
		}
		work = append(work, b.Succs...)
	}
	return true
}

// helperCall: the call (and result index) a gate value is the verdict of.
func helperCall(v ssa.Value) (*ssa.Call, int) {
	switch x := v.(type) {
	case *ssa.Call:
		return x, 0
	case *ssa.Extract:
		if c, ok := x.Tuple.(*ssa.Call); ok {
			return c, x.Index
		}
	}
	return nil, 0
}

// isInduction: the value is a loop counter of this function: a phi, or a phi
// plus/minus a constant (decided on the SSA value, not on its descriptor).
func (a *FnAnalysis) isInduction(v ssa.Value) bool {
	for i := 0; i < 4; i++ {
		switch x := v.(type) {
		case *ssa.Convert:
			v = x.X
		case *ssa.Phi:
			for _, e := range x.Edges {
				if b, ok := e.(*ssa.BinOp); ok && (b.Op == token.ADD || b.Op == token.SUB) {
					if b.X == ssa.Value(x) || b.Y == ssa.Value(x) {
						return true
					}
				}
			}
			return false
		case *ssa.BinOp:
			if x.Op != token.ADD && x.Op != token.SUB {
				return false
			}
			if _, ok := x.Y.(*ssa.Const); ok {
				v = x.X
			} else if _, ok := x.X.(*ssa.Const); ok {
				v = x.Y
			} else {
				return false
			}
		default:
			return false
		}
	}
	return false
}

// isSelectCase: the index of the select case that fired.
func isSelectCase(v ssa.Value) bool {
	if x, ok := v.(*ssa.Extract); ok && x.Index == 0 {
		_, sel := x.Tuple.(*ssa.Select)
		return sel
	}
	return false
}

func unionStr(a, b []string) []string {
	m := map[string]bool{}
	for _, s := range a {
		m[s] = true
	}
	for _, s := range b {
		m[s] = true
	}
	var out []string
	for s := range m {
		out = append(out, s)
	}
	sort.Strings(out)
	return out
}

func (a *FnAnalysis) candidate(v ssa.Value) bool {
	t := v.Type()
	if !(isBool(t) || isErrorType(t)) {
		return false
	}
	switch x := v.(type) {
	case *ssa.Phi, *ssa.Const:
		return false
	case *ssa.UnOp:
		return x.Op == token.MUL // loads of bool/error locations
	case *ssa.BinOp:
		// comparisons against nil are represented by their operand
		if (x.Op == token.EQL || x.Op == token.NEQ) && (isNilConst(x.X) != isNilConst(x.Y)) {
			o := x.X
			if isNilConst(x.X) {
				o = x.Y
			}
			return !isErrorType(o.Type()) // error operands are candidates themselves
		}
		return true
	case *ssa.ChangeInterface, *ssa.MakeInterface, *ssa.ChangeType:
		return false
	}
	return true
}

// AcceptCount is the number of accept outcomes with no assumption.
func (a *FnAnalysis) AcceptCount() int { return len(a.acceptSites()) }

// Bounds lists the integer comparisons that branch in the function, in
// canonical form ("lt(a, b)" / "eq(a, b)", prefixed by "!" when the branch is
// taken on the negation), excluding loop-carried induction tests. An
// off-by-one or a swapped operand changes the canonical form.
func (a *FnAnalysis) Bounds() []string {
	set := map[string]bool{}
	count := map[string]int{}
	for _, b := range a.Fn.Blocks {
		if _, reached := a.mustIn[b]; !reached || len(b.Instrs) == 0 {
			continue
		}
		ifi, ok := b.Instrs[len(b.Instrs)-1].(*ssa.If)
		if !ok {
			continue
		}
		v := ifi.Cond
		for {
			if u, ok := v.(*ssa.UnOp); ok && u.Op == token.NOT {
				v = u.X
				continue
			}
			break
		}
		bo, ok := v.(*ssa.BinOp)
		if !ok {
			continue
		}
		c := a.D.CanonCond(ifi.Cond)
		bt, ok := bo.X.Type().Underlying().(*types.Basic)
		if !ok || bt.Info()&types.IsInteger == 0 {
			// besides integer comparisons: nil tests of (parts of) parameters
			if !strings.HasPrefix(c.Desc, "isnil(P") {
				continue
			}
		}
		// loop induction tests (an operand IS the loop counter) are not bounds of the input
		if a.isInduction(bo.X) || a.isInduction(bo.Y) {
			continue
		}
		if isSelectCase(bo.X) || isSelectCase(bo.Y) {
			continue
		}
		// `for i := range n` is lowered to an entry guard `0 < n` in front of a rotated loop: a loop test
		if len(b.Succs) == 2 && (b.Succs[0].Comment == "rangeint.body" || b.Succs[0].Comment == "rangeint.done" || b.Succs[1].Comment == "rangeint.body") {
			continue
		}
		// the same test made at several places counts several times ("cond", "cond #2", …):
		// dropping one of two nil tests is a change, inverting a branch is not
		count[c.Desc]++
		if n := count[c.Desc]; n > 1 {
			set[fmt.Sprintf("%s #%d", c.Desc, n)] = true
		} else {
			set[c.Desc] = true
		}
	}
	// explicit two-sided slice windows of byte buffers (`b[lo:hi]`): a dropped upper bound lets a
	// copy run past its field
	for _, b := range a.Fn.Blocks {
		if _, reached := a.mustIn[b]; !reached {
			continue
		}
		for _, in := range b.Instrs {
			sl, ok := in.(*ssa.Slice)
			if !ok || sl.Low == nil || sl.High == nil {
				continue
			}
			if _, lc := sl.Low.(*ssa.Const); lc {
				if _, hc := sl.High.(*ssa.Const); hc {
					continue
				}
			}
			if a.isInduction(sl.Low) || a.isInduction(sl.High) {
				continue
			}
			s := "window " + a.D.Val(sl)
			count[s]++
			if n := count[s]; n > 1 {
				set[fmt.Sprintf("%s #%d", s, n)] = true
			} else {
				set[s] = true
			}
		}
	}
	// bounds tested inside small unexported helpers count for their callers
	if a.depth < 2 {
		for _, b := range a.Fn.Blocks {
			for _, in := range b.Instrs {
				ci, ok := in.(ssa.CallInstruction)
				if !ok {
					continue
				}
				f := ci.Common().StaticCallee()
				if ci.Common().IsInvoke() || !Inlinable(f) || f == a.Fn {
					continue
				}
				inlineBusy[f] = true
				ha := Analyze(f, AcceptSpec{})
				ha.depth = a.depth + 1
				hb := ha.Bounds()
				delete(inlineBusy, f)
				var args []string
				for _, arg := range ci.Common().Args {
					args = append(args, a.D.Val(arg))
				}
				for _, s := range hb {
					if i := strings.LastIndex(s, " #"); i > 0 {
						s = s[:i]
					}
					s = a.D.SubstFree(ci.Common().Value, SubstParams(s, args))
					count[s]++
					if n := count[s]; n > 1 {
						set[fmt.Sprintf("%s #%d", s, n)] = true
					} else {
						set[s] = true
					}
				}
			}
		}
	}
	var out []string
	for s := range set {
		out = append(out, s)
	}
	sort.Strings(out)
	return out
}

// FactsAt returns the branch facts that hold on every path to the block, as
// canonical condition -> truth value.
func (a *FnAnalysis) FactsAt(b *ssa.BasicBlock) map[string]bool {
	out := map[string]bool{}
	for k, v := range a.mustIn[b] {
		if k.isnil {
			out["isnil("+a.D.Val(k.v)+")"] = v
			continue
		}
		c := a.D.CanonCond(k.v)
		out[c.Desc] = v != c.Neg
	}
	return out
}

// AcceptingReturns lists the return instructions that may report success
// (nil error / true / no verdict result) with no assumption.
func AcceptingReturns(fn *ssa.Function) map[*ssa.Return]bool {
	a := Analyze(fn, AcceptSpec{})
	out := map[*ssa.Return]bool{}
	for _, in := range a.acceptSites() {
		if r, ok := in.(*ssa.Return); ok {
			out[r] = true
		}
	}
	return out
}

// FactValuesAt returns the SSA values (stripped conditions / nil-tested
// operands) of the branch facts that hold on every path to the block.
func (a *FnAnalysis) FactValuesAt(b *ssa.BasicBlock) []ssa.Value {
	var out []ssa.Value
	for k := range a.mustIn[b] {
		out = append(out, k.v)
	}
	return out
}

// Conds lists every branch condition of the function in canonical form
// (positive form; loop induction tests excluded).
func (a *FnAnalysis) Conds() []string {
	set := map[string]bool{}
	for _, b := range a.Fn.Blocks {
		if _, reached := a.mustIn[b]; !reached || len(b.Instrs) == 0 {
			continue
		}
		ifi, ok := b.Instrs[len(b.Instrs)-1].(*ssa.If)
		if !ok {
			continue
		}
		c := a.D.CanonCond(ifi.Cond)
		cv := ifi.Cond
		for {
			if u, ok := cv.(*ssa.UnOp); ok && u.Op == token.NOT {
				cv = u.X
				continue
			}
			break
		}
		if bo, ok := cv.(*ssa.BinOp); ok && (a.isInduction(bo.X) || a.isInduction(bo.Y)) {
			continue
		}
		if strings.Contains(c.Desc, "next(range") {
			continue
		}
		set[c.Desc] = true
	}
	var out []string
	for s := range set {
		out = append(out, s)
	}
	sort.Strings(out)
	return out
}

// Fact is one branch fact: value V (stripped of negations / nil comparisons)
// is nil (IsNil) or true, with truth value Val, on every path to the block.
type Fact struct {
	V     ssa.Value
	IsNil bool
	Val   bool
}

func (a *FnAnalysis) FactTriplesAt(b *ssa.BasicBlock) []Fact {
	var out []Fact
	for k, v := range a.mustIn[b] {
		out = append(out, Fact{k.v, k.isnil, v})
	}
	return out
}

// FullLoops lists (by the canonical condition of their header) the loops of
// the function that examine every element: the only ways out are the loop
// condition itself, a return or a panic — no `break` that lets the function
// carry on without having looked at the remaining elements.
func (a *FnAnalysis) FullLoops() []string {
	n := a.earlyExits(0)
	return []string{fmt.Sprintf("early-exits<=%d", n)}
}

// earlyExits counts the edges that leave a loop of the function (or of the
// small unexported helpers it calls) from its body towards code that carries
// on — `break`-like exits; leaving through the loop condition, a return or a
// panic does not count. Loop style (index / range, ascending / descending)
// does not matter.
func (a *FnAnalysis) earlyExits(depth int) int {
	fn := a.Fn
	total := 0
	latches := map[*ssa.BasicBlock][]*ssa.BasicBlock{}
	for _, b := range fn.Blocks {
		for _, h := range b.Succs {
			if h.Dominates(b) {
				latches[h] = append(latches[h], b)
			}
		}
	}
	for h, ls := range latches {
		inLoop := map[*ssa.BasicBlock]bool{h: true}
		stack := append([]*ssa.BasicBlock(nil), ls...)
		for len(stack) > 0 {
			x := stack[len(stack)-1]
			stack = stack[:len(stack)-1]
			if inLoop[x] {
				continue
			}
			inLoop[x] = true
			for _, p := range x.Preds {
				if h.Dominates(p) {
					stack = append(stack, p)
				}
			}
		}
		for x := range inLoop {
			if x == h {
				continue
			}
			for _, y := range x.Succs {
				if inLoop[y] {
					continue
				}
				if isLatchOf(x, h) && inductionTest(x, h) {
					// a rotated loop (`for i := range n` in go/ssa) tests its counter at the bottom:
					// that exit is the loop condition, not a break
					continue
				}
				switch y.Instrs[len(y.Instrs)-1].(type) {
				case *ssa.Return, *ssa.Panic:
					if len(y.Instrs) <= 12 {
						continue
					}
				}
				total++
			}
		}
	}
	if depth < 2 {
		seen := map[*ssa.Function]bool{}
		for _, b := range fn.Blocks {
			for _, in := range b.Instrs {
				ci, ok := in.(ssa.CallInstruction)
				if !ok {
					continue
				}
				f := ci.Common().StaticCallee()
				if ci.Common().IsInvoke() || !Inlinable(f) || f == fn || seen[f] {
					continue
				}
				seen[f] = true
				inlineBusy[f] = true
				ha := Analyze(f, AcceptSpec{})
				total += ha.earlyExits(depth + 1)
				delete(inlineBusy, f)
			}
		}
	}
	return total
}

func isLatchOf(x, h *ssa.BasicBlock) bool {
	for _, s := range x.Succs {
		if s == h {
			return true
		}
	}
	return false
}

// inductionTest: block x ends in a branch on a comparison one of whose operands is a
// counter of the loop headed by h (a phi of h, possibly offset by a constant).
func inductionTest(x, h *ssa.BasicBlock) bool {
	ifi, ok := x.Instrs[len(x.Instrs)-1].(*ssa.If)
	if !ok {
		return false
	}
	cmp, ok := ifi.Cond.(*ssa.BinOp)
	if !ok {
		return false
	}
	switch cmp.Op {
	case token.LSS, token.LEQ, token.GTR, token.GEQ, token.NEQ:
	default:
		return false
	}
	counter := func(v ssa.Value) bool {
		for i := 0; i < 3; i++ {
			switch y := v.(type) {
			case *ssa.Phi:
				return y.Block() == h
			case *ssa.BinOp:
				if y.Op != token.ADD && y.Op != token.SUB {
					return false
				}
				if _, isC := y.Y.(*ssa.Const); !isC {
					return false
				}
				v = y.X
			case *ssa.Convert:
				v = y.X
			default:
				return false
			}
		}
		return false
	}
	return counter(cmp.X) || counter(cmp.Y)
}

// loopKey names a loop by what bounds it — the operand of the header test that
// is not the loop counter ("loop(len(P1))") — so that an index loop and the
// equivalent range loop have the same key.
func (a *FnAnalysis) loopKey(cond ssa.Value) string {
	v := cond
	for {
		if u, ok := v.(*ssa.UnOp); ok && u.Op == token.NOT {
			v = u.X
			continue
		}
		break
	}
	if bo, ok := v.(*ssa.BinOp); ok {
		xi, yi := a.isInduction(bo.X), a.isInduction(bo.Y)
		switch {
		case xi && !yi:
			return "loop(" + a.D.Val(bo.Y) + ")"
		case yi && !xi:
			return "loop(" + a.D.Val(bo.X) + ")"
		}
	}
	return "loop[" + a.D.CanonCond(cond).Desc + "]"
}
