package apo

import (
	"fmt"
	"go/types"
	"sort"

	"golang.org/x/tools/go/ssa"

	"kyverif/internal/core"
)

// DepAnalysis: flow-insensitive data dependence of SSA values on the roots of
// the function (parameters, first-level fields of parameters, free variables,
// globals). It OVER-approximates dependence (a call result depends on every
// argument unless a summary says otherwise; an object handed to a call absorbs
// the other arguments), so "depends on X" is a necessary-condition check: a
// lost dependence is certain, a kept one is not proof of use.
type DepAnalysis struct {
	fn     *ssa.Function
	dep    map[ssa.Value]map[string]bool
	absorb map[ssa.Value]map[string]bool
	// Summary, when set, refines calls to functions with bodies: it returns
	// for callee f the parameter indices its results / written objects may
	// depend on (nil = all).
	Summary func(f *ssa.Function) *FnSummary
}

// FnSummary: ResultDeps[k] = parameter indices result k depends on (all
// results merged under key -1); ParamAbsorbs[i] = parameter indices whose
// data may be written into the object passed as parameter i.
type FnSummary struct {
	ResultDeps   map[int]bool
	ParamAbsorbs map[int]map[int]bool
}

func objRoot(v ssa.Value) ssa.Value {
	for {
		switch x := v.(type) {
		case *ssa.FieldAddr:
			if _, isParam := x.X.(*ssa.Parameter); isParam {
				return x // first-level field of a parameter is its own root
			}
			v = x.X
		case *ssa.IndexAddr:
			v = x.X
		case *ssa.Slice:
			v = x.X
		case *ssa.ChangeType:
			v = x.X
		case *ssa.Convert:
			v = x.X
		case *ssa.MakeInterface:
			v = x.X
		case *ssa.ChangeInterface:
			v = x.X
		case *ssa.TypeAssert:
			v = x.X
		case *ssa.Field:
			v = x.X
		case *ssa.Index:
			v = x.X
		case *ssa.Extract:
			if ta, ok := x.Tuple.(*ssa.TypeAssert); ok && x.Index == 0 {
				v = ta.X
				continue
			}
			return v
		default:
			return v
		}
	}
}

func refLike(t types.Type) bool {
	switch t.Underlying().(type) {
	case *types.Pointer, *types.Interface, *types.Slice, *types.Map, *types.Chan, *types.Signature:
		return true
	}
	return false
}

func NewDepAnalysis(fn *ssa.Function, summary func(f *ssa.Function) *FnSummary) *DepAnalysis {
	d := &DepAnalysis{fn: fn, dep: map[ssa.Value]map[string]bool{}, absorb: map[ssa.Value]map[string]bool{}, Summary: summary}
	d.run()
	return d
}

func (d *DepAnalysis) add(m map[ssa.Value]map[string]bool, v ssa.Value, s map[string]bool) bool {
	if len(s) == 0 {
		return false
	}
	t := m[v]
	if t == nil {
		t = map[string]bool{}
		m[v] = t
	}
	ch := false
	for k := range s {
		if !t[k] {
			t[k] = true
			ch = true
		}
	}
	return ch
}

func (d *DepAnalysis) get(v ssa.Value) map[string]bool {
	out := map[string]bool{}
	for k := range d.dep[v] {
		out[k] = true
	}
	if v != nil && refLike(v.Type()) {
		for k := range d.absorb[objRoot(v)] {
			out[k] = true
		}
	}
	return out
}

func paramIndex(p *ssa.Parameter) int {
	for i, q := range p.Parent().Params {
		if q == p {
			return i
		}
	}
	return -1
}

func (d *DepAnalysis) base(v ssa.Value) map[string]bool {
	switch x := v.(type) {
	case *ssa.Parameter:
		return map[string]bool{fmt.Sprintf("P%d", paramIndex(x)): true}
	case *ssa.FreeVar:
		return map[string]bool{"free(" + x.Name() + ")": true}
	case *ssa.Global:
		return map[string]bool{"global(" + x.Name() + ")": true}
	case *ssa.FieldAddr:
		if p, ok := x.X.(*ssa.Parameter); ok {
			st := p.Type().Underlying().(*types.Pointer).Elem().Underlying().(*types.Struct)
			return map[string]bool{fmt.Sprintf("P%d.%s", paramIndex(p), st.Field(x.Field).Name()): true}
		}
	}
	return nil
}

func (d *DepAnalysis) run() {
	fn := d.fn
	var vals []ssa.Value
	for _, p := range fn.Params {
		vals = append(vals, p)
	}
	for _, p := range fn.FreeVars {
		vals = append(vals, p)
	}
	for _, b := range fn.Blocks {
		for _, in := range b.Instrs {
			if v, ok := in.(ssa.Value); ok {
				vals = append(vals, v)
			}
		}
	}
	for _, v := range vals {
		d.add(d.dep, v, d.base(v))
	}
	changed := true
	for iter := 0; changed && iter < 100; iter++ {
		changed = false
		for _, b := range fn.Blocks {
			for _, in := range b.Instrs {
				switch x := in.(type) {
				case *ssa.Store:
					if d.add(d.absorb, objRoot(x.Addr), d.get(x.Val)) {
						changed = true
					}
				case *ssa.MapUpdate:
					s := d.get(x.Key)
					for k := range d.get(x.Value) {
						s[k] = true
					}
					if d.add(d.absorb, objRoot(x.Map), s) {
						changed = true
					}
				}
				if ci, ok := in.(ssa.CallInstruction); ok {
					if d.callEffects(ci) {
						changed = true
					}
				}
				v, ok := in.(ssa.Value)
				if !ok {
					continue
				}
				if _, isCall := in.(*ssa.Call); isCall {
					continue // handled in callEffects
				}
				if fa, ok := v.(*ssa.FieldAddr); ok {
					if _, isP := fa.X.(*ssa.Parameter); isP {
						continue // own root
					}
				}
				var ops []*ssa.Value
				ops = in.Operands(ops)
				for _, op := range ops {
					if *op == nil {
						continue
					}
					if g, ok := (*op).(*ssa.Global); ok {
						if d.add(d.dep, v, d.base(g)) {
							changed = true
						}
						continue
					}
					if d.add(d.dep, v, d.get(*op)) {
						changed = true
					}
				}
			}
		}
	}
}

func (d *DepAnalysis) callEffects(ci ssa.CallInstruction) bool {
	c := ci.Common()
	var args []ssa.Value
	if c.IsInvoke() {
		args = append(args, c.Value)
	} else if _, ok := c.Value.(*ssa.Function); !ok {
		if _, ok := c.Value.(*ssa.Builtin); !ok {
			args = append(args, c.Value) // closure / func value: its bindings matter
		}
	}
	off := len(args)
	args = append(args, c.Args...)
	var sum *FnSummary
	if f := c.StaticCallee(); f != nil && d.Summary != nil && len(f.Blocks) > 0 {
		sum = d.Summary(f)
	}
	if mc, ok := c.Value.(*ssa.MakeClosure); ok {
		for _, b := range mc.Bindings {
			args = append(args, b)
		}
		sum = nil
	}
	changed := false
	// result
	if v, ok := ci.(ssa.Value); ok {
		for i, a := range args {
			if sum != nil && i >= off && i-off < len(c.Args) && !sum.ResultDeps[i-off] {
				continue
			}
			if d.add(d.dep, v, d.get(a)) {
				changed = true
			}
		}
	}
	if b, ok := c.Value.(*ssa.Builtin); ok {
		switch b.Name() {
		case "copy":
			if d.add(d.absorb, objRoot(args[0]), d.get(args[1])) {
				changed = true
			}
		case "append":
			// result depends on args (done above)
		}
		return changed
	}
	// objects passed absorb the other arguments. For callees outside the module (standard library,
	// back-ends) and interface methods only the receiver / first argument is an output: letting every
	// argument absorb every other one makes unrelated values "depend" on each other through a shared
	// local buffer (key and nonce cut from one slice), which is noise that any refactoring can remove.
	external := c.IsInvoke()
	if f := c.StaticCallee(); f != nil && !core.InModule(f) {
		external = true
	}
	for i, a := range args {
		if !refLike(a.Type()) {
			continue
		}
		if external && i != 0 {
			continue
		}
		if _, isConst := a.(*ssa.Const); isConst {
			continue
		}
		for j, o := range args {
			if i == j {
				continue
			}
			if sum != nil && i >= off && j >= off && i-off < len(c.Args) && j-off < len(c.Args) {
				if m := sum.ParamAbsorbs[i-off]; m == nil || !m[j-off] {
					continue
				}
			}
			if d.add(d.absorb, objRoot(a), d.get(o)) {
				changed = true
			}
		}
	}
	return changed
}

// Of returns the sorted root names v depends on.
func (d *DepAnalysis) Of(v ssa.Value) []string {
	var out []string
	for k := range d.get(v) {
		out = append(out, k)
	}
	sort.Strings(out)
	return out
}

// Summarizer computes and memoises FnSummary for functions with bodies.
type Summarizer struct {
	memo    map[*ssa.Function]*FnSummary
	running map[*ssa.Function]bool
	depth   int
}

func NewSummarizer() *Summarizer {
	return &Summarizer{memo: map[*ssa.Function]*FnSummary{}, running: map[*ssa.Function]bool{}}
}

func rootParam(s string) int {
	var i int
	if n, _ := fmt.Sscanf(s, "P%d", &i); n == 1 {
		return i
	}
	return -1
}

func (s *Summarizer) Summary(f *ssa.Function) *FnSummary {
	if sum, ok := s.memo[f]; ok {
		return sum
	}
	if s.running[f] || s.depth > 12 || len(f.Blocks) == 0 || !core.InModule(f) {
		return nil // recursion / too deep: coarse
	}
	s.running[f] = true
	s.depth++
	d := NewDepAnalysis(f, s.Summary)
	s.depth--
	delete(s.running, f)
	sum := &FnSummary{ResultDeps: map[int]bool{}, ParamAbsorbs: map[int]map[int]bool{}}
	for _, b := range f.Blocks {
		for _, in := range b.Instrs {
			if r, ok := in.(*ssa.Return); ok {
				for _, v := range r.Results {
					for k := range d.get(v) {
						if i := rootParam(k); i >= 0 {
							sum.ResultDeps[i] = true
						}
					}
				}
			}
			// a verdict (error / bool result) is control-dependent on whatever the function tests:
			// every parameter that reaches a branch condition counts for the result
			if ifi, ok := in.(*ssa.If); ok && hasVerdict(f) {
				for k := range d.get(ifi.Cond) {
					if i := rootParam(k); i >= 0 {
						sum.ResultDeps[i] = true
					}
				}
			}
		}
	}
	// objects reachable from parameter i: the parameter itself and its first-level fields
	for r, abs := range d.absorb {
		pi := -1
		switch x := r.(type) {
		case *ssa.Parameter:
			pi = paramIndex(x)
		case *ssa.FieldAddr:
			if p, ok := x.X.(*ssa.Parameter); ok {
				pi = paramIndex(p)
			}
		}
		if pi < 0 {
			continue
		}
		m := sum.ParamAbsorbs[pi]
		if m == nil {
			m = map[int]bool{}
			sum.ParamAbsorbs[pi] = m
		}
		for k := range abs {
			if j := rootParam(k); j >= 0 && j != pi {
				m[j] = true
			}
		}
	}
	// a named-result / returned parameter object also carries what it absorbed
	s.memo[f] = sum
	return sum
}

func hasVerdict(f *ssa.Function) bool {
	res := f.Signature.Results()
	for i := 0; i < res.Len(); i++ {
		t := res.At(i).Type()
		if isErrorType(t) || isBool(t) {
			return true
		}
	}
	return false
}
