package main

import (
	"flag"
	"fmt"
	"os"
	"regexp"
	"sort"

	"kyverif/internal/apo"
	"kyverif/internal/core"
	"kyverif/internal/efx"
	"kyverif/internal/rules"
)

func main() {
	if len(os.Args) < 2 {
		fmt.Println("usage: kyverif gates|check ...")
		os.Exit(2)
	}
	switch os.Args[1] {
	case "gates":
		fs := flag.NewFlagSet("gates", flag.ExitOnError)
		re := fs.String("f", "", "regexp on short function name")
		cfg := fs.String("cfg", "default", "configuration")
		fs.Parse(os.Args[2:])
		p, err := core.Load(core.Configs[*cfg], nil)
		if err != nil {
			fmt.Println(err)
			os.Exit(1)
		}
		rx := regexp.MustCompile(*re)
		var names []string
		for n, fn := range p.Funcs {
			if rx.MatchString(n) && len(fn.Blocks) > 0 {
				names = append(names, n)
			}
		}
		sort.Strings(names)
		sm := apo.NewSummarizer()
		for _, n := range names {
			fn := p.Funcs[n]
			a := apo.Analyze(fn, apo.AcceptSpec{})
			a.Deps = apo.NewDepAnalysis(fn, sm.Summary)
			fmt.Printf("== %s (%s)\n", n, p.FnPos(fn))
			for _, g := range a.Gates() {
				fmt.Printf("  %-5v must=%-5v %s   deps=%v  @%s\n", g.FailWhen, g.MustPass, g.Cond, g.Deps, p.Pos(g.Pos))
			}
			for _, b := range a.Bounds() {
				fmt.Printf("  bound %s\n", b)
			}
			fmt.Printf("  loops %v\n", a.FullLoops())
		}
	case "efx":
		fs := flag.NewFlagSet("efx", flag.ExitOnError)
		re := fs.String("f", "", "regexp on short function name")
		cfg := fs.String("cfg", "default", "configuration")
		fs.Parse(os.Args[2:])
		p, err := core.Load(core.Configs[*cfg], nil)
		if err != nil {
			fmt.Println(err)
			os.Exit(1)
		}
		rx := regexp.MustCompile(*re)
		var names []string
		for n, fn := range p.Funcs {
			if rx.MatchString(n) && len(fn.Blocks) > 0 {
				names = append(names, n)
			}
		}
		sort.Strings(names)
		an := efx.NewAnalyzer(p)
		for _, n := range names {
			s := an.Summary(p.Funcs[n])
			fmt.Printf("== %s\n  writes=%v\n  reads=%v\n", n, s.Writes.Sorted(), s.Reads.Sorted())
			for k, r := range s.Ret {
				fmt.Printf("  ret%d=%v\n", k, r.Sorted())
			}
			for t, srcs := range s.RefStores {
				fmt.Printf("  refstore %s <- %v\n", t, srcs.Sorted())
			}
			if len(s.Unknown) > 0 {
				fmt.Printf("  unknown=%v\n", s.Unknown)
			}
		}
		fmt.Printf("stats %+v\n", an.Stats)
	case "gen-gates":
		for _, prop := range os.Args[2:] {
			c := rules.NewCtx(prop, "gen")
			specs := rules.GateSpecs(c, prop)
			if err := rules.GenGates(c, prop, specs); err != nil {
				fmt.Println(prop, err)
				os.Exit(1)
			}
			fmt.Println(prop, len(specs), "functions")
		}
	case "gen-flow":
		for _, prop := range os.Args[2:] {
			c := rules.NewCtx(prop, "gen")
			specs, reads := rules.FlowSpecs(c, prop)
			if err := rules.GenFlow(c, prop, specs, reads); err != nil {
				fmt.Println(prop, err)
				os.Exit(1)
			}
			fmt.Println(prop, len(specs), "flow specs", len(reads), "read sets")
		}
	case "vssdump":
		c := rules.NewCtx("C10", "gen")
		sk := rules.PairSkeletons(c, "default", "share/vss/pedersen", "share/vss/rabin", map[string]string{"Aggregator": "aggregator", "Dealer": "Dealer", "Verifier": "Verifier", "Deal": "Deal", "Response": "Response", "Justification": "Justification"},
			[][2]string{{`share/vss/(pedersen|rabin)\.`, "vss."}, {`\bAggregator\b`, "aggregator"}, {`StatusApproved`, "Approved"}})
		var keys []string
		for k := range sk {
			keys = append(keys, k)
		}
		sort.Strings(keys)
		same := 0
		for _, k := range keys {
			a, b := sk[k][0], sk[k][1]
			am, bm := map[string]bool{}, map[string]bool{}
			for _, x := range a {
				am[x] = true
			}
			for _, x := range b {
				bm[x] = true
			}
			var da, db []string
			for _, x := range a {
				if !bm[x] {
					da = append(da, x)
				}
			}
			for _, x := range b {
				if !am[x] {
					db = append(db, x)
				}
			}
			if len(da)+len(db) == 0 {
				same++
				continue
			}
			fmt.Printf("== %s\n  only pedersen: %v\n  only rabin: %v\n", k, da, db)
		}
		fmt.Println(same, "identical of", len(keys))
	case "sibdump":
		c := rules.NewCtx("C01", "gen")
		sk := rules.SiblingSkeletons(c, "default", false)
		var keys []string
		for k := range sk {
			keys = append(keys, k)
		}
		sort.Strings(keys)
		same := 0
		for _, k := range keys {
			a, b := sk[k][0], sk[k][1]
			am, bm := map[string]bool{}, map[string]bool{}
			for _, x := range a {
				am[x] = true
			}
			for _, x := range b {
				bm[x] = true
			}
			var da, db []string
			for _, x := range a {
				if !bm[x] {
					da = append(da, x)
				}
			}
			for _, x := range b {
				if !am[x] {
					db = append(db, x)
				}
			}
			if len(da)+len(db) == 0 {
				same++
				continue
			}
			fmt.Printf("== %s\n  only bn256: %v\n  only bn254: %v\n", k, da, db)
		}
		fmt.Println(same, "identical of", len(keys))
	case "gen-freshret":
		c := rules.NewCtx("C03", "gen")
		n, err := rules.GenFreshRet(c)
		fmt.Println(n, "functions", err)
	case "gen-mustwrite":
		for _, prop := range os.Args[2:] {
			c := rules.NewCtx(prop, "gen")
			n, err := rules.GenMustWrite(c, prop)
			fmt.Println(prop, n, "functions", err)
		}
	case "try":
		// kyverif try <patch.diff> <prop>... : quick rules on the tree with the patch applied through an overlay
		res := rules.TryPatch(os.Args[2], os.Args[3:])
		rc := 0
		for _, pr := range os.Args[3:] {
			if len(res[pr]) > 0 {
				rc = 1
			}
			fmt.Printf("== %s %s reports=%d\n", os.Args[2], pr, len(res[pr]))
			for i, l := range res[pr] {
				if i < 8 {
					if len(l) > 420 {
						l = l[:420]
					}
					fmt.Println(l)
				}
			}
		}
		os.Exit(rc)
	case "check":
		tier := "quick"
		if len(os.Args) > 3 {
			tier = os.Args[3]
		}
		os.Exit(rules.Run(os.Args[2], tier))
	default:
		os.Exit(2)
	}
}

