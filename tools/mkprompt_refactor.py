#!/usr/bin/env python3
import sys
area=sys.argv[1]; files=sys.argv[2]; wt=sys.argv[3]; out=sys.argv[4]
print(f"""You are helping test a verification framework for the Go library dedis/kyber (module go.dedis.ch/kyber/v4). This time your job is the OPPOSITE of breaking things: produce THREE independent, realistic, BEHAVIOUR-PRESERVING refactorings of library source code — the kind of clean-up a maintainer would merge — so that we can check the framework raises no false alarm on correct code.

You have your own scratch git worktree of the repository at {wt} (already created, detached HEAD). Work ONLY there. Never read or write /repo or /verif. Write deliverables to {out}/ (create it). NEVER use `git stash` (it is shared between worktrees); to flip use `git diff > file && git checkout -- .` and `git apply`.

Area: {area}
Files to choose from: {files}

Requirements for each of the three refactorings (r1, r2, r3; different functions, different styles):
1. It changes non-test library source only, 5-40 lines, and MUST NOT change observable behaviour for any input (same results, same errors returned in the same situations, same panics, same memory-safety/aliasing/concurrency behaviour: do not introduce or remove writes to arguments or shared state, do not change which checks run or their order relative to state changes).
2. Use varied, ordinary refactoring styles, for example: extract a few lines into an unexported helper function (or inline a small helper); rename local variables or an unexported helper; replace an index loop by a range loop or vice versa; hoist a repeated sub-expression (e.g. `g.Point().MarshalSize()`) into a local variable; replace `if err != nil {{ return err }}; return nil` by `return err`-style simplifications only when exactly equivalent; reorder two adjacent statements that are obviously independent; turn an `if/else` chain into a `switch`; invert an `if` with early return; replace `a != b` by `!(a == b)`-style rewrites; split a long boolean condition into two nested ifs with the same short-circuit order; replace a magic number by an equivalent named constant.
3. With the change applied `cd {wt} && go build ./... && go test -mod=mod -vet=off -count=1 ./...` passes (use the default `go` on PATH, do NOT set GOTOOLCHAIN/GOSUMDB/GOFLAGS; no network).
4. Explain briefly why behaviour is unchanged.

Deliverables for i in 1,2,3 in {out}/r<i>/ : patch.diff (output of `git -C {wt} diff`, applying cleanly to a pristine checkout with `git apply`), notes.md (what was refactored, why it is behaviour-preserving, the commands you ran). Restore the worktree to pristine after each and at the end. Final message: one line per refactoring (file, function, style).""")
