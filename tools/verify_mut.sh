#!/bin/bash
# usage: tools/verify_mut.sh <mutdir>...   (each has patch.diff, demo_test.go)
# Confirms in a scratch worktree of /repo HEAD: patch applies, builds, suite passes with it,
# demo fails with it, demo passes without it. Prints one line per mutant.
WT=/tmp/wt/verify.$$
git -C /repo worktree add --detach $WT HEAD >/dev/null 2>&1 || exit 2
trap "git -C /repo worktree remove --force $WT; git -C /repo worktree prune" EXIT
for d in "$@"; do
  cd $WT; git checkout -q -- . ; git clean -fdq
  place=$(grep -m1 '^// place at:' $d/demo_test.go | sed 's,// place at: *,,')
  run=$(grep -m1 '^// run:' $d/demo_test.go | sed 's,// run: *,,')
  if ! git apply --check $d/patch.diff 2>/dev/null; then echo "$d APPLY-FAIL"; continue; fi
  git apply $d/patch.diff
  if ! go build ./... >/tmp/vm.build 2>&1; then echo "$d BUILD-FAIL"; continue; fi
  go test -mod=mod -vet=off -count=1 ./... > /tmp/vm.suite 2>&1; suite=$?
  mkdir -p $(dirname $place); cp $d/demo_test.go $place
  (eval "$run") > /tmp/vm.demo1 2>&1; with=$?
  git checkout -q -- .
  (eval "$run") > /tmp/vm.demo2 2>&1; without=$?
  rm -f $place
  echo "$d suite=$suite demo_with=$with demo_without=$without"
done
