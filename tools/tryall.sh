#!/bin/bash
# usage: tools/tryall.sh <outfile> <dir>...   — development aid: every dir's patch.diff through `kyverif try`
# (overlay, /repo untouched), 5 patches in parallel. Mutant dirs (name contains /C<nn>/) are checked against
# their own property, refactoring dirs against all 20.
out=$1; shift
export PATH=/opt/veriftools/go1.26.8/bin:$PATH GOFLAGS=-mod=mod GOPROXY=off GOTOOLCHAIN=local; unset GOWORK GOSUMDB
one() {
  d=$1
  prop=$(echo $d | grep -oE '/C[0-9][0-9]/' | tr -d / | head -1)
  if [ -n "$prop" ]; then props=$prop; else props="C01 C02 C03 C04 C05 C06 C07 C08 C09 C10 C11 C12 C13 C14 C15 C16 C17 C18 C19 C20"; fi
  ${KYVERIF:-/verif/bin/kyverif} try $d/patch.diff $props > /tmp/tryall.$$.$(echo $d | tr / _).out 2>&1
  f=/tmp/tryall.$$.$(echo $d | tr / _).out
  if [ -n "$prop" ]; then
    rules=$(grep -oE "\[[A-Z-]+\]" $f | sort | uniq -c | tr '\n' ' ')
    n=$(grep -c "reports=0" $f)
    echo "$d $prop exit=$((1-n)) $rules $(grep -c 'checker failure' $f | sed 's/^0$//;s/^[1-9].*/CHECKER-FAILURE/')"
  else
    grep -B0 -A3 "reports=[1-9]" $f | cut -c1-330 | sed "s#^==#== FALSE-ALARM#"
    echo "== $d done"
  fi
  rm -f $f
}
export -f one
printf "%s\n" "$@" | xargs -P 5 -I{} bash -c "one {}" > $out 2>&1
