#!/usr/bin/env python3
# prints the sub-agent prompt for one property (id given) and one worktree
import json,sys
pid=sys.argv[1]; wt=sys.argv[2]; out=sys.argv[3]
for l in open('/verif/properties.jsonl'):
    p=json.loads(l)
    if p['id']==pid: break
else: sys.exit('no such property')
rec={k:p[k] for k in ('id','title','statement','quantifier','why_tests_cant','anchors')}
print(f"""You are helping test a verification framework for the Go library dedis/kyber (module go.dedis.ch/kyber/v4). Your job is to act as a careful adversarial developer: produce TWO independent, realistic source changes ("mutants") to the library, each of which BREAKS the behavioural property below, while the library still compiles and its existing test suite still passes.

You have your own scratch git worktree of the repository at {wt} (already created, detached HEAD). Work ONLY there. Never read or write /repo or /verif. Write your deliverables to {out}/ (create it).

PROPERTY (JSON record):
{json.dumps(rec,indent=1)}

Requirements for each of the two changes (call them m1 and m2; they must use different mechanisms / touch different functions, ideally in different packages or implementations named by the property):
1. It is a small edit to non-test library source (a few lines; do not edit, delete or add *_test.go files in the patch; do not touch go.mod). It must look like a plausible developer slip or "optimisation" (dropped check, reordered statements, wrong variable, shared buffer, missing copy, off-by-one in a guard, early return before state is initialised, check moved to only one branch, error ignored ...), not like sabotage with a magic constant.
2. With the change applied, `cd {wt} && go build ./... && go test -mod=mod -vet=off -count=1 ./...` still passes completely (takes ~25 s; run it; use the default `go` on PATH and do NOT set GOTOOLCHAIN/GOSUMDB/GOFLAGS env vars — the repo needs go1.25 auto-switching which already works offline; there is no network).
3. The change makes the property false, but only under something specific: an unusual input, a particular aliasing of receiver/operands, a multi-step sequence of API calls, a particular interleaving of goroutines, a fault at a particular point, or two cooperating sites that each look fine alone. Changes that ordinary use would expose at once are not wanted.
4. Provide a demonstration: a Go test file (package-external or internal, your choice) that FAILS with the change applied and PASSES on the unmodified tree. Verify both directions yourself. NEVER use `git stash` (the stash is shared between worktrees of other agents); to flip use `git diff > /tmp/mut/<id>.patch && git checkout -- .` and `git apply`.

Deliverables, for i in 1,2, in {out}/m<i>/ :
  - patch.diff   : output of `git -C {wt} diff` for the library change only (must apply cleanly with `git apply` to a pristine checkout)
  - demo_test.go : the demonstration test, plus a line at the top `// place at: <relative path inside repo>` saying where to copy it, and `// run: go test -mod=mod -vet=off -count=1 -run <Name> ./<pkg>/`
  - notes.md     : which clause of the property breaks, what it needs to manifest, and the exact commands you ran with their outcome (suite passes with change; demo fails with change; demo passes without).
When done with each mutant, restore the worktree to pristine (`git -C {wt} checkout -- . && git -C {wt} clean -fd`) before starting the next, and leave it pristine at the end. Do not leave build output under /tmp other than the deliverables. Your final message should just list the two mutants in one line each (file, function, what breaks).""")
