#!/usr/bin/env python3
"""Generates /verif/MANIFEST.json from tools/claims.json (one entry per property:
either a claim or a not_applicable reason)."""
import json,os
here=os.path.dirname(os.path.abspath(__file__))
claims=json.load(open(os.path.join(here,'claims.json')))
ids=[json.loads(l)['id'] for l in open(os.path.join(here,'..','properties.jsonl'))]
checks=[];na=[]
for pid in ids:
    c=claims.get(pid)
    if not c or 'na' in c:
        na.append({"property_id":pid,"reason":(c or {}).get('na','no sound static rule implemented yet')})
        continue
    checks.append({
        "property_id":pid,
        "quick_cmd":f"./check {pid} quick",
        "thorough_cmd":f"./check {pid} thorough",
        "evidence_file":f"/verif/evidence/{pid}.json",
        "replay_cmd_template":"cat {path}",
        "engine":"kyverif",
        "level_claimed":{"category":"other","text":c['text'],"design_ref":c.get('ref','DESIGN.md §4 '+pid)},
        "level_note":c['note'],
        "technique":c['technique'],
    })
m={"version":1,
 "setup_cmd":"./setup.sh",
 "hooks":{"guard":"verif","enable":"none needed: the analysis reads source only; no hooks exist","baseline_off_cmd":"cd /repo && go test -mod=mod -vet=off -count=1 -timeout 25m ./...","source_commits":[],"add_only":True},
 "engines":[{"name":"kyverif","path":"/verif/kyverif","serves_properties":[c['property_id'] for c in checks],"kind_free_text":"repository-specific static analyser on go/types + go/ssa (x/tools v0.50.0, go1.26.8): accept-path gates, effects/aliasing, shape tables, entropy reachability; nothing in /repo is executed"}],
 "checks":checks,
 "not_applicable":na,
 "notes":"Static analysis only. Every check loads /repo's current working tree with go/packages, builds SSA and decides structural clauses; evidence lists the obligations. See DESIGN.md."}
json.dump(m,open(os.path.join(here,'..','MANIFEST.json'),'w'),indent=1)
print(len(checks),'claimed',len(na),'n/a')
