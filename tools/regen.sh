#!/bin/bash
# Regenerates every frozen table from /repo's current tree (which must be the unchanged, repaired tree),
# then the frozen minimum obligation counts from a clean quick run of all 20 checks.
# The diff of tables/ is to be reviewed by hand before committing.
set -e
cd /verif
git -C /repo diff --quiet || { echo "/repo has local changes"; exit 2; }
export PATH=/opt/veriftools/go1.26.8/bin:$PATH GOFLAGS=-mod=mod GOPROXY=off GOTOOLCHAIN=local; unset GOWORK GOSUMDB
./setup.sh >/dev/null
bin/kyverif gen-gates C02 C04 C06 C07 C08 C09 C10 C11 C12 C13 C14 C15 C16 C17 C19
bin/kyverif gen-flow C02 C03 C06 C14 C18
bin/kyverif gen-mustwrite C01 C02 C04 C07 C08 C09 C10 C11 C12 C13 C14 C15 C19
bin/kyverif gen-freshret
rm -f tables/mincounts.json
fail=0
for i in $(seq -w 1 20); do ./check C$i quick > /tmp/regen.C$i.out 2>&1 || { echo "C$i FAILS after regeneration"; tail -5 /tmp/regen.C$i.out; fail=1; }; done
[ $fail = 0 ] && python3 tools/mkmincounts.py
exit $fail
