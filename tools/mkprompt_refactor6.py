#!/usr/bin/env python3
# round-F refactoring prompt: same contract as mkprompt_refactor.py, different styles
import sys
area=sys.argv[1]; files=sys.argv[2]; wt=sys.argv[3]; out=sys.argv[4]
print(f"""You are helping test a verification framework for the Go library dedis/kyber (module go.dedis.ch/kyber/v4). Your job is to produce THREE independent, realistic, BEHAVIOUR-PRESERVING refactorings of library source code — the kind of clean-up or modernisation a maintainer would merge — so that we can check the framework raises no false alarm on correct code.

You have your own scratch git worktree of the repository at {wt} (already created, detached HEAD). Work ONLY there. Never read or write /repo or /verif. Write deliverables to {out}/ (create it). NEVER use `git stash` (it is shared between worktrees); to flip use `git diff > file && git checkout -- .` and `git apply`.

Area: {area}
Files to choose from: {files}

Requirements for each of the three refactorings (r1, r2, r3; different functions, different styles; prefer the functions that do the real work of the package — decoding, verifying, processing a message, recovering, arithmetic — over trivial accessors):
1. It changes non-test library source only, 5-50 lines, and MUST NOT change observable behaviour for any input (same results, same errors returned in the same situations, same panics, same memory-safety/aliasing/concurrency behaviour: do not introduce or remove writes to arguments or shared state, do not change which checks run or their order relative to state changes, do not change what is retained or shared).
2. Use ordinary styles, each refactoring a different one, chosen from this list: replace a hand-written loop by an exactly equivalent standard-library helper (`slices.Contains`, `slices.Index`, `bytes.Equal`, builtin `min`/`max`, `clear`) or the other way round; named result parameters <-> explicit returns; `if err := f(); err != nil` <-> `err := f()` followed by `if err != nil`; guard clauses: nested `if ok {{ ... }}` inside a loop -> `if !ok {{ continue }}`, removing an `else` after a `return`; a bool flag variable plus `break` <-> direct `return` from the loop (or a labelled `continue`); a method body moved into an unexported function that takes the former receiver as its first argument (the method delegates), or the reverse; an anonymous closure turned into a named local function value or an unexported method; two adjacent independent loops over the same range merged, or one loop split in two, when provably equivalent; a repeated error-construction or a repeated pair of checks factored into a tiny helper; De Morgan / double-negation rewrites of a condition; `var x T` plus assignments <-> short variable declarations; a `switch` on a value <-> `if / else if`; introducing a small unexported struct or local type to group variables that travel together; replacing `x.Len()`-style repeated calls inside a loop condition by a local evaluated once when the value cannot change.
3. With the change applied `cd {wt} && go build ./... && go test -mod=mod -vet=off -count=1 ./...` passes (use the default `go` on PATH, do NOT set GOTOOLCHAIN/GOSUMDB/GOFLAGS; no network).
4. Explain briefly why behaviour is unchanged.

Deliverables for i in 1,2,3 in {out}/r<i>/ : patch.diff (output of `git -C {wt} diff`, applying cleanly to a pristine checkout with `git apply`), notes.md (what was refactored, why it is behaviour-preserving, the commands you ran). Restore the worktree to pristine after each and at the end. Final message: one line per refactoring (file, function, style).""")
