#!/bin/bash
# usage: tools/applyall.sh <outfile> <dir>...
# Every dir's patch.diff is APPLIED to /repo (git apply), the quick rules are run on the patched working tree
# by one process (`kyverif try -`: same rules and tables as ./check, programs loaded once for all properties),
# and the tree is restored at once. Mutant dirs (path contains /C<nn>/) against their own property,
# refactoring dirs against all 20.
out=$1; shift
export PATH=/opt/veriftools/go1.26.8/bin:$PATH GOFLAGS=-mod=mod GOPROXY=off GOTOOLCHAIN=local; unset GOWORK GOSUMDB
: > $out
for d in "$@"; do
  git -C /repo diff --quiet || { echo "/repo not clean" >> $out; exit 2; }
  prop=$(echo $d | grep -oE '/C[0-9][0-9]/' | tr -d / | head -1)
  if [ -n "$prop" ]; then props=$prop; else props="C01 C02 C03 C04 C05 C06 C07 C08 C09 C10 C11 C12 C13 C14 C15 C16 C17 C18 C19 C20"; fi
  git -C /repo apply $d/patch.diff || { echo "$d APPLY-FAIL" >> $out; continue; }
  /verif/bin/kyverif try - $props > /tmp/applyall.out 2>&1
  git -C /repo checkout -- .
  if [ -n "$prop" ]; then
    rules=$(grep -oE "\[[A-Z-]+\]" /tmp/applyall.out | sort | uniq -c | tr '\n' ' ')
    n=$(grep -c "reports=0" /tmp/applyall.out)
    echo "$d $prop exit=$((1-n)) $rules $(grep -c 'checker failure' /tmp/applyall.out | sed 's/^0$//;s/^[1-9].*/CHECKER-FAILURE/')" >> $out
  else
    grep -A3 "reports=[1-9]" /tmp/applyall.out | cut -c1-330 | sed "s#^== -#== FALSE-ALARM $d#" >> $out
    echo "== $d done" >> $out
  fi
done
echo ALLDONE >> $out
