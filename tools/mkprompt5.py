#!/usr/bin/env python3
# round-5 prompt: base prompt of mkprompt.py plus a list of wanted mechanisms
import subprocess, sys
pid, wt, out = sys.argv[1:4]
base = subprocess.run(['python3', '/verif/tools/mkprompt.py', pid, wt, out], capture_output=True, text=True).stdout
extra = """

Mechanisms particularly wanted this time (pick ones that fit the property; m1 and m2 must use different ones, and prefer places in the code that are NOT the single most obvious check of the property):
 (a) a slice/array aliasing slip: `append` into a caller-provided or shared backing array, re-slicing instead of copying, handing out an internal buffer;
 (b) state left half-updated when a later step fails (a record inserted / a counter bumped / a flag set before validation has completed);
 (c) a check made on a different object than the one that is then used (validate x but use y; validate a copy and use the original, or the other way round);
 (d) integer conversion / truncation / unsigned arithmetic / off-by-one in a length, index or threshold computation;
 (e) a configuration-specific path (a rarely used back-end, suite, variant constructor or option) that diverges from its siblings;
 (f) the relevant check or initialisation done only for the first / last element, or skipped for index 0 or for the node's own index;
 (g) two cooperating edits in different functions or files that each look harmless alone;
 (h) a concurrency slip: shared scratch storage or a cached value introduced as an optimisation, lazily initialised state without synchronisation;
 (i) an error shadowed (`err :=` in an inner scope), overwritten, or converted to a success value before it is returned;
 (j) a default / zero value accepted where it must be refused (nil or empty slice, zero scalar, identity point, index outside the declared range).
"""
print(base.rstrip() + extra)
