#!/usr/bin/env python3
"""Freezes, per property and rule, 80% of the number of obligations the last quick runs produced
(evidence/*.json -> tables/mincounts.json). Run only after a clean quick run of all checks on the unchanged tree."""
import json,glob,os
out={}
for f in sorted(glob.glob('/verif/evidence/C*.json')):
    e=json.load(open(f))
    if e['tier']!='quick' or e.get('violations'): raise SystemExit(f'{f}: not a clean quick run')
    out[e['property_id']]={r:int(n*0.8) for r,n in e['coverage']['per_rule'].items() if r!='SELFTEST' and n>=3}
json.dump(out,open('/verif/tables/mincounts.json','w'),indent=1,sort_keys=True)
print({k:sum(v.values()) for k,v in out.items()})
