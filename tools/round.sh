#!/bin/bash
# usage: tools/round.sh <mutroot> <prop>   e.g. tools/round.sh /tmp/mut5 C09
# verifies the sub-agent's two deliverables in a scratch worktree and tries them (overlay) against their own property
root=$1; p=$2
git -C /repo worktree remove --force /tmp/wt/r5/$p 2>/dev/null; git -C /repo worktree remove --force /tmp/wt/r6/$p 2>/dev/null; git -C /repo worktree prune
/verif/tools/verify_mut.sh $root/$p/m1 $root/$p/m2 2>&1 | grep -v "^Preparing\|^HEAD" | tee -a $root/verify.log
/verif/tools/tryall.sh /tmp/try.$p.out $root/$p/m1 $root/$p/m2; cat /tmp/try.$p.out | tee -a $root/try.log
