#!/usr/bin/env python3
# round-6 prompt: base prompt of mkprompt.py plus a different list of wanted mechanisms
import subprocess, sys
pid, wt, out = sys.argv[1:4]
base = subprocess.run(['python3', '/verif/tools/mkprompt.py', pid, wt, out], capture_output=True, text=True).stdout
base = base.replace("(takes ~25 s; run it;", "(takes ~25 s on an idle machine, several minutes when busy; while iterating run only the packages you touched and their dependants, and run the full suite once per mutant at the end;")
extra = """

Mechanisms particularly wanted this time (pick ones that fit the property; m1 and m2 must use different ones). Simply deleting or inverting the property's most obvious check is NOT wanted — look for quieter slips:
 (a) the producing side (signer, prover, dealer, encoder, shuffler) goes wrong only in a rare configuration — a particular index position, ring or group size, n == t, a single participant, an empty or maximum-length input — while the checking side is untouched;
 (b) a stale cache: a precomputed or lazily computed value (hash, aggregate, coefficient table, normalised form) that is not refreshed or invalidated after the state it depends on changes;
 (c) the wrong index space or map key: position in one list used to index another, share index vs array position, old vs new node set, index compared after a conversion that changes it;
 (d) copy semantics: a struct copied by value that carries slices / pointers / maps, so that two objects silently share part of their state; or a shallow clone;
 (e) iteration-order dependence (map iteration) or dependence on the order in which messages / shares arrive;
 (f) integer types: uint32 vs int conversions, a negative or wrapped value, overflow or off-by-one exactly at a threshold boundary;
 (g) comparing or hashing encodings instead of values (or the reverse) where non-canonical or differently-sized forms exist;
 (h) once-only initialisation (nil check, sync.Once, package-level variable) that captures the first caller's parameters;
 (i) an error path that returns a partially filled result together with a nil error, or a success path that returns a stale error;
 (j) a rarely used build configuration, back-end or option whose code path differs from the default one.
"""
print(base.rstrip() + extra)
