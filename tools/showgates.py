#!/usr/bin/env python3
import json,sys
w=int(sys.argv[2]) if len(sys.argv)>2 else 170
for f in json.load(open(f'/verif/tables/gates/{sys.argv[1]}.json')):
    print(f"== {f['func']}  sink={f.get('sink','')} accepts={f['accept_sites']} cfg={f.get('cfg','')}")
    for g in (f['gates'] or []):
        print(f"   {'T' if g['fail_when'] else 'F'} {'M' if g['must_pass'] else '-'} {g['cond'][:w]}  {','.join(g.get('deps',[]))}")
