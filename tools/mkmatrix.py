#!/usr/bin/env python3
# usage: mkmatrix.py <apply/try log>...   prints, per rule group, the seeded changes whose own check reports them
import re, sys, collections
groups = [
 ('APO-GATE / APO-DEP / APO-BOUND', {'APO-GATE','APO-DEP','APO-BOUND'}),
 ('APO-ANCHOR / APO-EXACT / APO-LOOP', {'APO-ANCHOR','APO-EXACT','APO-LOOP'}),
 ('APO-LENGUARD / APO-ERRDROP / ACC-GATE', {'APO-LENGUARD','APO-ERRDROP','ACC-GATE'}),
 ('EFX-ALIAS', {'EFX-ALIAS'}),
 ('EFX-OPI / EFX-INDEP / SH-RET / EFX-POLICY', {'EFX-OPI','EFX-INDEP','SH-RET','EFX-POLICY'}),
 ('EFX-RO / EFX-GLOBAL', {'EFX-RO','EFX-GLOBAL'}),
 ('EFX-FRESHRET / EFX-PTREQ', {'EFX-FRESHRET','EFX-PTREQ'}),
 ('EFX-READSET / SH-FLOW', {'EFX-READSET','SH-FLOW'}),
 ('EFX-STALE / EFX-LOOPSHARE', {'EFX-STALE','EFX-LOOPSHARE'}),
 ('MUST-WRITE / SH-CTOR', {'MUST-WRITE','SH-CTOR'}),
 ('SH-NILBASE / SH-SIBLING', {'SH-NILBASE','SH-SIBLING'}),
 ('SH-WRITERS / SH-PAIRUPD / SH-MODULUS / SH-REDUCE', {'SH-WRITERS','SH-PAIRUPD','SH-MODULUS','SH-REDUCE'}),
 ('DET-ENT', {'DET-ENT'}),
]
rows = collections.OrderedDict((g, []) for g, _ in groups)
missed = []
seen = set()
for f in sys.argv[1:]:
    for line in open(f):
        m = re.match(r'/tmp/(mut\d?)/(C\d\d)/(\w+) (C\d\d) exit=(\d)\s*(.*)', line)
        if not m: continue
        rnd = {'mut':'', 'mut2':'r2:', 'mut3':'r3:', 'mut4':'r4:'}[m.group(1)]
        name = f"{rnd}{m.group(2)}/{m.group(3).replace('extra_m','x')}"
        if name in seen: continue
        seen.add(name)
        rules = set(re.findall(r'\[([A-Z-]+)\]', m.group(6)))
        if m.group(5) == '0':
            missed.append(name); continue
        for g, rs in groups:
            if rules & rs:
                rows[g].append(name); break
        else:
            rows.setdefault('other', []).append(name + str(rules))
for g, l in rows.items():
    print(f'| {g} | {", ".join(l)} |')
print('| **silent** |', ', '.join(missed), '|')
