#!/bin/bash
# usage: tools/tryref.sh <dir with patch.diff> [props...]   — behaviour-preserving change: every check must stay silent
d=$1; shift
props="$@"; [ -z "$props" ] && props="C01 C02 C03 C04 C05 C06 C07 C08 C09 C10 C11 C12 C13 C14 C15 C16 C17 C18 C19 C20"
git -C /repo diff --quiet || { echo "/repo not clean"; exit 2; }
git -C /repo apply "$d/patch.diff" || { echo "$d APPLY-FAIL"; exit 2; }
one() { p=$1; d=$2
  /verif/check $p quick > /tmp/tryref.$p.out 2>&1; rc=$?
  if [ $rc -ne 0 ]; then echo "== $d $p FALSE-ALARM exit=$rc"; grep -E "^[^ ]+:[0-9]+: \[|checker failure" /tmp/tryref.$p.out | cut -c1-330 | head -6; fi
}
export -f one
printf "%s\n" $props | xargs -P 6 -I{} bash -c "one {} $d"
echo "== $d done"
git -C /repo checkout -- .
