#!/usr/bin/env python3
# usage: mkseeded.py mutants <round> <matrix.log> | benign <label-prefix> <tryref.log> <dir>...
# Copies verified sub-agent deliverables into /verif/seeded/<id>/ with meta.json.
import json, os, re, shutil, sys
props = [json.loads(l) for l in open('/verif/properties.jsonl')]
def patch_files(p):
    return [l[6:].strip() for l in open(p) if l.startswith('+++ b/')]
def first_para(path, n=260):
    if not os.path.exists(path): return ''
    t = ' '.join(x.strip() for x in open(path).read().split('\n') if x.strip() and not x.startswith('#'))
    return t[:n]
mode = sys.argv[1]
if mode == 'mutants':
    rnd, log = sys.argv[2], sys.argv[3]
    for line in open(log):
        m = re.match(r'(\S+) (C\d\d) exit=(\d)\s*(.*)', line)
        if not m: continue
        d, prop, rc, rules = m.group(1), m.group(2), int(m.group(3)), re.findall(r'\[([A-Z-]+)\]', m.group(4))
        name = os.path.basename(d).replace('extra_m', 'xm')
        sid = f'{prop}-r{rnd}{name}' if rnd != '1' else f'{prop}-{name}'
        out = f'/verif/seeded/{sid}'
        os.makedirs(out, exist_ok=True)
        for f in ('patch.diff', 'demo_test.go', 'notes.md'):
            if os.path.exists(f'{d}/{f}'): shutil.copy(f'{d}/{f}', out)
        meta = {'property': prop, 'round': int(rnd),
                'source': 'independent sub-agent given only the property text and a scratch worktree',
                'breaks': first_para(f'{d}/notes.md'), 'needs_to_manifest': 'see notes.md',
                'what_i_ran': "tools/verify_mut.sh in a scratch worktree of /repo HEAD (removed afterwards): git apply patch.diff; go build ./...; go test -mod=mod -vet=off -count=1 ./... (pass); demonstration copied to its 'place at' path and run with its 'run' command: FAILS with the change, PASSES without it. Detection: tools/matrix.sh (git -C /repo apply; ./check <prop> quick; git -C /repo checkout -- .).",
                'detected_by': [prop] if rc == 1 else [], 'rules': sorted(set(rules))}
        if rc != 1:
            old = {}
            if os.path.exists(f'{out}/meta.json'):
                old = json.load(open(f'{out}/meta.json'))
            meta['why_not_detected'] = old.get('why_not_detected', 'TODO')
        json.dump(meta, open(f'{out}/meta.json', 'w'), indent=1)
        print(sid, meta['detected_by'], meta['rules'])
elif mode == 'benign':
    log = open(sys.argv[3]).read()
    for d in sys.argv[4:]:
        if f'== {d} done' not in log or re.search(re.escape(d) + r' C\d\d FALSE-ALARM', log):
            print('SKIP (not clean)', d); continue
        parts = d.rstrip('/').split('/')
        sid = f'benign-{parts[-2]}{parts[-1]}'
        out = f'/verif/seeded/{sid}'
        os.makedirs(out, exist_ok=True)
        for f in ('patch.diff', 'notes.md'):
            if os.path.exists(f'{d}/{f}'): shutil.copy(f'{d}/{f}', out)
        files = patch_files(f'{d}/patch.diff')
        silent = []
        for p in props:
            af = p['anchors'].get('files', [])
            if any(f == a for f in files for a in af):
                silent.append(p['id'])
        # replaying costs one full run of the property's rules per change: at most four properties each,
        # preferring the table-based (gate) properties, where a refactoring could matter most
        pref = ['C04','C07','C08','C09','C10','C11','C12','C13','C14','C15','C16','C17','C19','C02','C06','C03','C18','C01','C05','C20']
        silent = sorted(sorted(silent, key=pref.index)[:4])
        meta = {'kind': 'behaviour-preserving refactoring (no property broken)',
                'source': "independent sub-agent asked for maintainers' clean-ups; suite passes with it",
                'expected': 'every check stays silent',
                'what_i_ran': 'tools/tryref.sh <dir> (git -C /repo apply; all 20 quick checks; git -C /repo checkout -- .): no alarm',
                'detected_by': [], 'silent_for': silent, 'files': files}
        json.dump(meta, open(f'{out}/meta.json', 'w'), indent=1)
        print(sid, silent)
