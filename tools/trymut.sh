#!/bin/sh
# usage: tools/trymut.sh <dir with patch.diff> <prop> [prop...]
# Applies the seeded change to /repo, runs the quick checks, reverts at once.
d=$1; shift
git -C /repo diff --quiet || { echo "/repo not clean"; exit 2; }
git -C /repo apply "$d/patch.diff" || exit 2
for p in "$@"; do
  /verif/check $p quick > /tmp/trymut.$p.out 2>&1; rc=$?
  echo "== $d $p exit=$rc"; grep -E "^[^ ]+:[0-9]+: \[|checker failure" /tmp/trymut.$p.out | cut -c1-400 | head -8
done
git -C /repo checkout -- . ; git -C /repo status --short | head -3
