#!/bin/bash
# runs every seeded mutant dir given (name must start with the property id, e.g. C05/m1) against its own property
for d in "$@"; do
  prop=$(echo $d | grep -o 'C[0-9][0-9]' | head -1)
  if ! git -C /repo apply --check $d/patch.diff 2>/dev/null; then echo "$d $prop APPLY-FAIL"; continue; fi
  git -C /repo apply $d/patch.diff
  /verif/check $prop quick > /tmp/matrix.out 2>&1; rc=$?
  rules=$(grep -oE "^[^ ]*: \[[A-Z-]+\]" /tmp/matrix.out | grep -oE "\[[A-Z-]+\]" | sort | uniq -c | tr '\n' ' ')
  echo "$d $prop exit=$rc $rules"
  git -C /repo checkout -- .
done
